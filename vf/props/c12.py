"""C12 Signatures do not depend on incidental numbering or process state.

A form recipe is built several times in *the same way* (same creation order) under different histories of the global
counters -- the counters of Index, Coefficient, Constant, Label and the Mesh id are advanced before the build so
that the objects of the form receive numbers on both sides of 9|10, 99|100, 999|1000 (the effect of creating that many
objects before; the per-type counters are set directly, which is what those creations would do) -- and in worker
processes started with different PYTHONHASHSEED values.  All signatures of one recipe must be identical.
Recipes emphasise what ordering decisions depend on: commutative operands of equal type (two constants, two
coefficients of one space, quantities of two meshes, two variables, two free indices).
"""

import itertools
import json
import os
import subprocess
import sys

from hypothesis import strategies as st

from vf.common import Discard, Violation
from vf.forms import LinGen, build_form, draw_md, draw_sid
from vf.gen import Gen, Profile, worlds

LEVEL = "exploration"
RULE = (
    "Hypothesis: forms of 1-3 integrals (possibly over two or three meshes of one kind, with coefficients, constants and "
    "geometric quantities living on different meshes) whose integrands are sums/products of like terminals, variables "
    "and index contractions plus generated terms; each recipe is built under 4 counter histories drawn from offsets "
    "{0, 1, 7, 8, 9, 10, 95..101, 996..1001, 9998} per counted type and once in each of three worker processes started "
    "with PYTHONHASHSEED 0, 1 and 4242. non-trivial = the form contains at least two counted objects of one type whose "
    "numbers straddle a digit boundary in some history; distinct = distinct (recipe, histories)."
)
ASSUMPTIONS = [
    "advancing a global counter directly is equivalent to creating that many objects of the type beforehand",
    "same creation order in every build (the statement's premise)",
]
BUDGET = {"quick": {"examples": 1600, "seconds": 70}, "thorough": {"examples": 50000, "seconds": 1500}}
LABEL_FLOORS = {"quick": {"multi-mesh": 300, "straddle": 600, "subprocess": 1000}}
CASE_TIMEOUT = {"quick": 30, "thorough": 60}

OPS = {"arith", "math", "cond", "index", "tensor", "compound", "deriv", "pow", "abs", "var"}
PROF = Profile(ops=OPS, leaves={"coef", "const", "lit", "x", "geo", "eye"}, max_rank=2, elements="lagrange", manifolds=False,
               args=((0, "any"),), weights={"var": 3})
OFFSETS = [0, 1, 7, 8, 9, 10, 95, 96, 97, 98, 99, 100, 101, 996, 997, 998, 999, 1000, 1001, 9998]
HASHSEEDS = ["0", "1", "4242"]


@st.composite
def cases(draw, tier):
    world = draw(worlds(PROF))
    g = world["gdim"]
    nmesh = draw(st.sampled_from([1, 1, 2, 3]))
    world["nmesh"] = nmesh
    # twins of like type: two constants, two coefficients of one space, living on possibly different meshes
    world["fields"]["c0b"] = dict(kind="const", shape=[], mesh=draw(st.integers(0, nmesh - 1)))
    world["fields"]["c0c"] = dict(kind="const", shape=[], mesh=draw(st.integers(0, nmesh - 1)))
    world["fields"]["f0b"] = dict(world["fields"]["f0"], mesh=draw(st.integers(0, nmesh - 1)))
    world["fields"]["w0b"] = dict(world["fields"]["w0"], mesh=draw(st.integers(0, nmesh - 1)))
    if nmesh > 1:
        # objects created earlier may live on meshes created later (and vice versa)
        for n_, f_ in world["fields"].items():
            if f_["kind"] in ("coef", "const") and "mesh" not in f_:
                f_["mesh"] = draw(st.integers(0, nmesh - 1))
    if not draw(st.booleans()):
        world["fields"].pop("a0", None)
    G = Gen(draw, world, PROF)
    L = LinGen(G, cond=False)
    argnames = ["a0"] if "a0" in world["fields"] else []

    def commutative_term():
        k = draw(st.sampled_from(["consts", "consts3", "coefs", "meshes", "vars", "indices", "geo"]))
        if k == "consts":
            return [draw(st.sampled_from(["mul", "add"])), ["fld", "c0"], ["fld", "c0b"]]
        if k == "consts3":
            return ["mul", ["add", ["fld", "c0c"], ["fld", "c0"]], ["fld", "c0b"]]
        if k == "coefs":
            return [draw(st.sampled_from(["mul", "add"])), ["fld", "f0"], ["fld", "f0b"]]
        if k == "meshes":
            a, b = draw(st.integers(0, nmesh - 1)), draw(st.integers(0, nmesh - 1))
            return [draw(st.sampled_from(["mul", "add"])), ["index", ["xm", a], [0]], ["index", ["xm", b], [0]]]
        if k == "geo":
            a, b = draw(st.integers(0, nmesh - 1)), draw(st.integers(0, nmesh - 1))
            return ["mul", ["geom", "CellVolume", a], ["geom", draw(st.sampled_from(["CellVolume", "Circumradius"])), b]]
        if k == "vars":
            v1 = G.new_var(["fld", "f0"], ())
            v2 = G.new_var(["fld", "f0"], ()) if draw(st.booleans()) else G.new_var(["fld", "f0b"], ())
            return [draw(st.sampled_from(["mul", "add"])), v1, v2]
        i, j = G.names[0], G.names[1]
        return ["mul", ["mul", ["index", ["fld", "w0"], [i]], ["index", ["fld", "w0b"], [i]]],
                ["mul", ["index", ["fld", "w0b"], [j]], ["index", ["fld", "w0"], [j]]]]

    integrals = []
    for _ in range(draw(st.sampled_from([1, 1, 2, 3]))):
        t = commutative_term()
        if draw(st.booleans()):
            t = ["mul", t, G.expr((), (), draw(st.integers(1, 2)))]
        if argnames:
            t = ["mul", t, L.term(argnames, 1)]
        integrals.append({"itype": "dx", "sid": draw_sid(draw), "md": draw_md(draw), "mesh": draw(st.integers(0, nmesh - 1)), "expr": t})
    hist = []
    for _ in range(4):
        if draw(st.booleans()):
            hist.append({k: draw(st.sampled_from(OFFSETS)) for k in ("index", "coef", "const", "label", "mesh")})
        else:
            # all counters near the same digit boundary (what a long-running session looks like)
            o = draw(st.sampled_from(OFFSETS))
            hist.append({k: max(0, o + draw(st.integers(-2, 2))) for k in ("index", "coef", "const", "label", "mesh")})
    return {"world": world, "vars": G.vars, "integrals": integrals, "histories": hist}


def strategy(tier):
    return cases(tier)


# ------------------------------------------------------------------------------------------- building under a history
def set_counters(h):
    import ufl
    from ufl.classes import Coefficient, Constant, Index, Label

    Index._counter = itertools.count(h["index"])
    Coefficient._counter = itertools.count(h["coef"])
    Constant._counter = itertools.count(h["const"])
    Label._counter = itertools.count(h["label"])
    ufl.Mesh._ufl_global_id = h["mesh"]


def signature_under(case, h):
    from vf.build import Builder

    set_counters(h)
    b = Builder(case["world"], case.get("vars", ()))
    form, _ = build_form(b, case["integrals"])
    if form is None or not form.integrals():
        return None, None
    counts = {"coef": sorted(c.count() for c in form.coefficients()), "const": sorted(c.count() for c in form.constants()),
              "mesh": sorted(d.ufl_id() for d in form.ufl_domains())}
    return form.signature(), counts


def straddles(nums):
    """two numbers of one type on both sides of a digit boundary"""
    return len(nums) >= 2 and len({len(str(n)) for n in nums}) >= 2


# ------------------------------------------------------------------------------------------- hash-seed workers
_WORKERS = {}

WORKER_CODE = r"""
import sys, json
sys.setrecursionlimit(20000)
from vf.props import c12
for line in sys.stdin:
    req = json.loads(line)
    try:
        sig, counts = c12.signature_under(req["case"], req["history"])
        out = {"sig": sig}
    except BaseException as ex:
        out = {"error": type(ex).__name__ + ": " + str(ex)[:200]}
    sys.stdout.write(json.dumps(out) + "\n")
    sys.stdout.flush()
"""


def worker(seed):
    w = _WORKERS.get(seed)
    if w is None or w.poll() is not None:
        env = dict(os.environ, PYTHONHASHSEED=seed, PYTHONWARNINGS="ignore")
        w = subprocess.Popen([sys.executable, "-c", WORKER_CODE], stdin=subprocess.PIPE, stdout=subprocess.PIPE, env=env,
                             text=True, bufsize=1)
        _WORKERS[seed] = w
    return w


def ask(seed, case, history):
    w = worker(seed)
    w.stdin.write(json.dumps({"case": case, "history": history}) + "\n")
    w.stdin.flush()
    line = w.stdout.readline()
    if not line:
        raise RuntimeError("hash-seed worker died")
    return json.loads(line)


def warmup():
    for s in HASHSEEDS:
        worker(s)


def check_case(case):
    sigs = []
    strad = False
    try:
        for h in case["histories"]:
            s, counts = signature_under(case, h)
            if s is None:
                raise Discard("empty form")
            sigs.append((s, h))
            strad |= any(straddles(v) for v in counts.values())
    except Discard:
        raise
    except RecursionError:
        raise
    except Exception as ex:
        raise Discard("build:" + type(ex).__name__)
    base = sigs[0][0]
    for s, h in sigs[1:]:
        if s != base:
            raise Violation(f"signature depends on the counters: history {sigs[0][1]} vs {h}", {"kind": "counter-dependent"})
    labels = []
    for k, seed in enumerate(HASHSEEDS):
        out = ask(seed, case, case["histories"][k % len(case["histories"])])
        if "error" in out:
            raise Discard("worker:" + out["error"][:40])
        if out["sig"] != base:
            raise Violation(f"signature differs in a process with PYTHONHASHSEED={seed} (history {case['histories'][k % 4]})",
                            {"kind": "process-dependent", "hashseed": seed})
    labels.append("subprocess")
    if case["world"].get("nmesh", 1) > 1:
        labels.append("multi-mesh")
    if strad:
        labels.append("straddle")
    return {"nontrivial": strad, "labels": labels}

"""C02 Gateaux derivatives are the true directional derivatives.

Oracle: the tau-coefficient of the jet of F evaluated with  w -> w + tau v  (second derivatives: tau1*tau2,
user-supplied relations g -> g + tau (dg/dw : v)), computed by the reference interpreter without any
differentiation rule, == value of expand_derivatives(derivative(F, w, v, coefficient_derivatives)).
If ufl raises, the statement is satisfied ("raises instead of returning a wrong value"); raised cases are counted.
"""

import numpy as np
from hypothesis import strategies as st

from vf.common import Discard, Violation
from vf.gen import Gen, Profile, ops_in, worlds
from vf.interp import Interp, close, derivative_depth
from vf.props.valuecommon import warmup  # noqa: F401
from vf.props.valuecommon import (Guard, build_case, check_acyclic, eval_output, exc_bucket, make_env, rel_err,
                                  same_type)

LEVEL = "exploration"
RULE = (
    "Hypothesis recipes: integrand F (scalar/vector/matrix valued, full grammar incl. spatial derivatives up to order "
    "2, conditionals, math/Bessel functions, variables, index notation) over a world of coefficients on the element "
    "zoo; differentiation w.r.t. a coefficient that occurs in F: whole, fixed component, or a tuple of two; direction "
    "= new Argument (explicit or created by derivative()), another coefficient or a generated expression; optional "
    "second derivative; optional coefficient_derivatives relation. non-trivial = oracle derivative not identically "
    "zero and F contains a nonlinear operator; distinct = distinct recipe."
)
ASSUMPTIONS = [
    "real-valued smooth data; kinks of abs/sign/min/max/conditionals within 1e-7 and denominators below 1e-3 are discarded",
    "an exception raised by ufl satisfies the statement and is only counted",
]
BUDGET = {"quick": {"examples": 3000, "seconds": 70}, "thorough": {"examples": 100000, "seconds": 1200}}

PROFILE = Profile(
    ops={"arith", "math", "cond", "index", "tensor", "compound", "deriv", "pow", "abs", "var", "sign", "math2", "powx",
         "bessel"},
    leaves={"coef", "const", "lit", "x", "zero", "eye"},
    max_rank=2, elements="all", manifolds=True,
)
# complex stratum: holomorphic operators plus conj/real/imag, complex field values, *real* perturbation parameter tau
CPLX = Profile(
    ops={"arith", "index", "tensor", "compound", "deriv", "ipow", "var", "complexops", "holo"},
    leaves={"coef", "const", "lit", "x", "zero", "eye"}, cplx=True,
    max_rank=2, elements="all", manifolds=True, weights={"sdiv": 0, "inv": 0},
)
NONLINEAR = {"mul", "pow", "div", "fn", "cond", "abs", "inner", "dot", "outer", "det", "inv", "cofac", "atan2",
             "bessel", "max", "min", "sign", "cross"}


def coef_names(r, world, acc=None):
    acc = [] if acc is None else acc
    if isinstance(r, list):
        if len(r) == 2 and r[0] == "fld" and world["fields"].get(r[1], {}).get("kind") == "coef":
            if r[1] not in acc:
                acc.append(r[1])
        for x in r:
            coef_names(x, world, acc)
    return acc


def is_const_space(world, n):
    el = world["fields"][n]["elem"]
    return el[0] == "Real" or (el[0] in ("DG", "P") and el[1] == 0)


@st.composite
def wrt_entry(draw, G, world, name, allow_expr=True):
    sh = tuple(world["fields"][name]["shape"])
    comp = None
    if sh and draw(st.integers(0, 3)) == 0:
        comp = [draw(st.integers(0, n - 1)) for n in sh]
    dsh = () if comp is not None else sh
    kind = draw(st.sampled_from(["arg", "arg", "coef", "expr"] if allow_expr else ["arg", "coef"]))
    el = world["fields"][name]["elem"]
    if el[0] == "Real" or (el[0] in ("DG", "P") and el[1] == 0):
        # cell-wise constant space: its tangent space only contains cell-wise constant directions
        kind = "arg"
    if kind == "arg":
        direction = ["newarg"]
    elif kind == "coef":
        direction = G.leaf_field_only(dsh, ())
    else:
        direction = G.expr(dsh, (), 1)
    return {"field": name, "comp": comp, "dir": direction}


@st.composite
def cases(draw, tier):
    cplx = draw(st.integers(0, 5)) == 0
    prof = CPLX if cplx else PROFILE
    world = draw(worlds(prof))
    G = Gen(draw, world, prof)
    g = world["gdim"]
    sh = draw(st.sampled_from([(), (), (g,), (g, g)]))
    F = G.expr(sh, (), draw(st.integers(1, 3)))
    names = coef_names(F, world) + [n for v in G.vars for n in coef_names(v, world)]
    names = list(dict.fromkeys(names))
    if not names:
        F = ["mul", G.leaf_field_only((), ()), F]
        names = coef_names(F, world)
    n1 = draw(st.sampled_from(names))
    wrt = [draw(wrt_entry(G, world, n1))]
    def const_space(n):
        return is_const_space(world, n)

    cands = [n for n in names if n != n1 and not const_space(n)]
    if cands and not const_space(n1) and draw(st.integers(0, 4)) == 0:
        n2 = draw(st.sampled_from(cands))
        wrt.append(draw(wrt_entry(G, world, n2)))
        for w in wrt:
            if w["dir"] == ["newarg"]:
                w["dir"] = G.leaf_field_only(() if w["comp"] is not None else tuple(world["fields"][w["field"]]["shape"]), ())
    auto = wrt[0]["dir"] == ["newarg"] and wrt[0]["comp"] is None and len(wrt) == 1 and draw(st.booleans())
    second = None
    if draw(st.integers(0, 3)) == 0:
        n3 = draw(st.sampled_from(names))
        second = [draw(wrt_entry(G, world, n3, allow_expr=False))]
        # the oracle perturbs both coefficients at once, so the second direction must not depend on the first
        # perturbation: always a fresh Argument
        second[0]["dir"] = ["newarg"]
        # ... and the first directions must not depend on the coefficient of the second derivative (the oracle
        # evaluates directions as fixed fields)
        def dir_names(r):
            out = list(coef_names(r, world))
            stack = [r]
            while stack:
                x = stack.pop()
                if isinstance(x, list):
                    if len(x) == 2 and x[0] == "var":
                        out += dir_names(G.vars[x[1]])
                    else:
                        stack.extend(x)
            return out

        for w in wrt:
            if n3 in dir_names(w["dir"]):
                w["dir"] = ["newarg"] if len(wrt) == 1 else G.lit()
        if len(wrt) > 1 and any(w["dir"][0] == "lit" and w["comp"] is None and world["fields"][w["field"]]["shape"] for w in wrt):
            second = None
    cd = None
    # (a relation dg/dw for a cell-wise constant g would need a cell-wise constant dg : v -- not generated)
    others = [n for n in names if n not in [w["field"] for w in wrt] and (second is None or n != second[0]["field"])
              and not is_const_space(world, n)]
    if others and second is None and len(wrt) == 1 and wrt[0]["comp"] is None and draw(st.integers(0, 2)) == 0:
        gname = draw(st.sampled_from(others))
        gsh = tuple(world["fields"][gname]["shape"])
        wsh = tuple(world["fields"][wrt[0]["field"]]["shape"])
        if len(gsh) + len(wsh) <= 2:
            cd = {"g": gname, "dg": G.expr(gsh + wsh, (), 1)}
    extra = None
    if second is None and len(wrt) == 1 and wrt[0]["comp"] is None and draw(st.integers(0, 3)) == 0:
        # a second derivative node with the same coefficient and direction in the same DAG, with its own (or no)
        # coefficient_derivatives relation: exercises what is shared between derivatives inside one expansion
        F2 = ["mul", G.leaf_field_only((), ()), ["add", F, G.expr(sh, (), 1)]] if draw(st.booleans()) else G.expr(sh, (), 2)
        F2 = ["add", F2, ["mul", ["fld", n1] if not world["fields"][n1]["shape"] else ["lit", 1], F]]
        cd2 = None
        names2 = [n for n in list(dict.fromkeys(coef_names(F2, world))) if n != n1 and not is_const_space(world, n)]
        if names2 and draw(st.integers(0, 2)) > 0:
            gname = cd["g"] if (cd and draw(st.booleans()) and cd["g"] in names2) else draw(st.sampled_from(names2))
            gsh = tuple(world["fields"][gname]["shape"])
            wsh = tuple(world["fields"][n1]["shape"])
            if len(gsh) + len(wsh) <= 2:
                cd2 = {"g": gname, "dg": G.expr(gsh + wsh, (), 1)}
        extra = {"expr": F2, "cd": cd2}
    return {"world": world, "expr": F, "vars": G.vars, "wrt": wrt, "auto": auto, "second": second, "cd": cd,
            "extra": extra, "cplx": cplx, "env_seed": draw(st.integers(0, 10**6))}


def strategy(tier):
    return cases(tier)


def _has_grad_of(r, name):
    """does the recipe contain a spatial derivative whose operand mentions field `name`?"""
    def mentions(x):
        if isinstance(x, list):
            if len(x) == 2 and x[0] == "fld" and x[1] == name:
                return True
            return any(mentions(y) for y in x)
        return False

    if isinstance(r, list):
        if r and r[0] in ("grad", "divop", "curl", "nabla_grad", "nabla_div", "dx", "Dn") and mentions(r[1]):
            return True
        return any(_has_grad_of(x, name) for x in r)
    return False


def f10_predicate(case):
    """F10: a coefficient with a user-supplied coefficient_derivatives relation occurs under a spatial derivative."""
    cd = case.get("cd")
    if not cd:
        return False
    return _has_grad_of(case["expr"], cd["g"]) or any(_has_grad_of(v, cd["g"]) for v in case.get("vars", ()))




def check_case(case):
    import ufl
    from ufl.algorithms import expand_derivatives

    b, F = build_case(case)
    check_acyclic(F, "input")

    def entries(wrt, number):
        coefs, dirs, pert = [], [], []
        for w in wrt:
            c = b.fields[w["field"]]
            comp = tuple(w["comp"]) if w["comp"] is not None else None
            if w["dir"] == ["newarg"]:
                if comp is None:
                    d = ufl.Argument(c.ufl_function_space(), number)
                else:
                    d = ufl.Argument(ufl.FunctionSpace(b.mesh, _scalar_el(b)), number)
            else:
                try:
                    d = b.build(w["dir"])
                except Exception as ex:
                    raise Discard("build:" + type(ex).__name__)
            coefs.append(c if comp is None else c[comp])
            dirs.append(d)
            pert.append((c, d, comp))
        return coefs, dirs, pert

    def cd_of(spec):
        if not spec:
            return None, None
        gfield = b.fields[spec["g"]]
        dg = b.build(spec["dg"])
        return {gfield: dg}, (gfield, dg)

    try:
        coefs, dirs, pert1 = entries(case["wrt"], 0)
        parts = []  # (F_k, cdinfo_k)
        cd, cdinfo = cd_of(case.get("cd"))
        if case.get("auto"):
            dF = ufl.derivative(F, coefs[0], None, cd)
        elif len(coefs) == 1:
            dF = ufl.derivative(F, coefs[0], dirs[0], cd)
        else:
            dF = ufl.derivative(F, tuple(coefs), tuple(dirs), cd)
        parts.append((F, cdinfo))
        if case.get("extra"):
            try:
                F2 = b.build(case["extra"]["expr"])
            except Exception as ex:
                raise Discard("build:" + type(ex).__name__)
            cd2, cdinfo2 = cd_of(case["extra"].get("cd"))
            dF = dF + ufl.derivative(F2, coefs[0], None if case.get("auto") else dirs[0], cd2)
            parts.append((F2, cdinfo2))
        pert2 = None
        if case.get("second"):
            coefs2, dirs2, pert2 = entries(case["second"], 1)
            dF = ufl.derivative(dF, coefs2[0], dirs2[0])
        low = expand_derivatives(dF)
    except Discard:
        raise
    except RecursionError:
        raise
    except Exception as ex:
        return {"nontrivial": False, "labels": ["raised:" + exc_bucket(ex)]}
    check_acyclic(low, "output")
    if not same_type(F, low):
        raise Violation(f"shape/free indices changed: {F.ufl_shape} -> {low.ufl_shape}", {"kind": "type-changed"})
    order_x = max([derivative_depth(low)] + [derivative_depth(Fk) for Fk, _ in parts])
    ntau = 2 if pert2 else 1
    order = order_x + ntau
    if order > 4:
        raise Discard("jet order > 4")
    nonzero = False
    for rep in range(2):
        env = make_env(case, rep, cplx=bool(case.get("cplx")))
        exp = 0.0
        for Fk, cdk in parts:
            I = Interp(env, order=order, nextra=ntau)
            t = I.tdim
            for c, d, comp in pert1:
                I.perturb.setdefault(repr(c), []).append((t, d, comp))
            if cdk is not None:
                gfield, dg = cdk
                (c, d, comp) = pert1[0]
                # g -> g + tau * (dg : v): contraction over the trailing axes of dg with the direction
                if d.ufl_shape:
                    ii = ufl.indices(len(d.ufl_shape))
                    jj = ufl.indices(len(gfield.ufl_shape))
                    inc = ufl.as_tensor(dg[jj + ii] * d[ii], jj) if jj else dg[ii] * d[ii]
                else:
                    inc = dg * d
                I.perturb.setdefault(repr(gfield), []).append((t, inc, None))
            if pert2:
                for c, d, comp in pert2:
                    I.perturb.setdefault(repr(c), []).append((t + 1, d, comp))
            jetF = Guard(I).value(Fk, jet=True)
            mono = [0] * I.js.n
            mono[t] = 1
            if pert2:
                mono[t + 1] = 1
            exp = exp + I.js.coeff(jetF, mono)
        # the expanded derivative is evaluated without perturbation
        I2 = Interp(env, order=order_x)
        got = eval_output(Guard(I2), low)
        if not close(exp, got, rtol=1e-7, atol=1e-9):
            raise Violation(
                f"Gateaux derivative mismatch: oracle {np.ravel(exp)[:4]} vs expanded {np.ravel(got)[:4]} (rel err {rel_err(exp, got):.3g})",
                {"kind": "value", "rel_err": rel_err(exp, got)})
        nonzero |= bool(np.any(np.abs(exp) > 1e-12))
    ops = ops_in(case["expr"])
    labels = []
    if case.get("second"):
        labels.append("second")
    if case.get("cd"):
        labels.append("coefficient_derivatives")
    if len(case["wrt"]) > 1:
        labels.append("tuple")
    if any(w["comp"] is not None for w in case["wrt"]):
        labels.append("component")
    if case.get("auto"):
        labels.append("auto_argument")
    if case.get("extra"):
        labels.append("two_derivatives_in_one_dag")
    if case.get("cplx"):
        labels.append("complex")
    return {"nontrivial": nonzero and bool(ops & NONLINEAR), "labels": labels or ["plain"]}


def _scalar_el(b):
    from vf.elements import make_element

    return make_element(["P", 1, []], b.cell)

"""C04 diff() with respect to variables computes partial derivatives.

Oracle: for every component c of the differentiation variable, the tau-coefficient of the jet of f evaluated with
the *value of the variable node* (or of the coefficient terminal) perturbed by tau*E_c -- everything that is not
expressed through the variable is untouched -- == component [..., c] of expand_derivatives(diff(f, v)).
Repeated diff uses two perturbation symbols.  Shape must be f.shape + v.shape.
"""

import itertools

import numpy as np
from hypothesis import strategies as st

from vf.common import Discard, Violation
from vf.gen import Gen, Profile, ops_in, worlds
from vf.interp import Interp, close, derivative_depth
from vf.props.valuecommon import warmup  # noqa: F401
from vf.props.valuecommon import Guard, build_case, check_acyclic, eval_output, exc_bucket, make_env, rel_err

LEVEL = "exploration"
RULE = (
    "Hypothesis recipes: 1-3 variables (scalar, vector, matrix valued; later variables may be defined through earlier "
    "ones, or wrap grad/div/dx of composite expressions) and an expression f over the full grammar that uses them (several times, indexed, inside list/component "
    "tensors and conditionals); diff w.r.t. a variable or a coefficient, optionally repeated. non-trivial = the "
    "oracle derivative is not identically zero and f contains a nonlinear operator; distinct = distinct recipe."
)
ASSUMPTIONS = [
    "real smooth data; ill-conditioned points are discarded",
    "spatial derivatives of the differentiation variable are not generated (ufl defines d(grad v)/dv only through "
    "its own convention); spatial derivatives of other fields are, inside variable definitions (then no diff w.r.t. a coefficient)",
]
BUDGET = {"quick": {"examples": 4000, "seconds": 60}, "thorough": {"examples": 120000, "seconds": 1200}}

LABEL_FLOORS = {"quick": {"target-wraps-spatial-derivative": 150}}
PROFILE = Profile(
    ops={"arith", "math", "cond", "index", "tensor", "compound", "pow", "abs", "var", "sign", "math2", "powx"},
    leaves={"coef", "const", "lit", "zero", "eye"},
    max_rank=2, elements="lagrange", manifolds=False, weights={"var": 1},
)
DPROFILE = Profile(
    ops={"arith", "math", "index", "tensor", "compound", "deriv", "pow"},
    leaves={"coef", "const", "lit", "x"},
    max_rank=2, elements="lagrange", manifolds=False, weights={"grad": 6, "dxk": 4, "divv": 4},
)
SPATIAL = {"grad", "div", "curl", "dx", "nabla_grad", "nabla_div"}
NONLINEAR = {"mul", "pow", "div", "fn", "cond", "abs", "inner", "dot", "outer", "det", "inv", "cofac", "atan2",
             "max", "min", "sign", "cross"}


@st.composite
def cases(draw, tier):
    world = draw(worlds(PROFILE))
    G = Gen(draw, world, PROFILE)
    g = world["gdim"]
    nv = draw(st.integers(1, 3))
    # variables may wrap spatial derivatives of composite expressions of the *other* fields (never of a variable and
    # never differentiated w.r.t. a coefficient below): derivative expansion rewrites what such a variable wraps
    Gd = Gen(draw, world, DPROFILE)
    spatial = False
    for k in range(nv):
        sh = draw(st.sampled_from([(), (), (g,), (g, g)]))
        if draw(st.integers(0, 3)) == 0:
            spatial = True
            G.new_var(Gd.expr(sh, (), draw(st.integers(1, 2))), sh)
        elif k > 0 and draw(st.integers(0, 3)) == 0:
            # directly nested variable(variable(e)): a distinct variable with the same value
            j = draw(st.integers(0, k - 1))
            G.new_var(["var", j], G.var_shapes[j])
        else:
            G.new_var(G.expr(sh, (), draw(st.integers(0, 2))), sh)
    fsh = draw(st.sampled_from([(), (), (g,)]))
    f = G.expr(fsh, (), draw(st.integers(1, 3)))
    # make sure the first target occurs
    diffs = []
    nd = draw(st.sampled_from([1, 1, 1, 2]))
    for _ in range(nd):
        if not spatial and draw(st.integers(0, 4)) == 0:
            diffs.append({"kind": "coef", "field": draw(st.sampled_from(["f0", "w0", "m0"]))})
        else:
            diffs.append({"kind": "var", "k": draw(st.integers(0, len(G.vars) - 1))})
    d0 = diffs[0]
    if d0["kind"] == "var":
        vs = G.var_shapes[d0["k"]]
        ref = ["var", d0["k"]]
    else:
        vs = tuple(world["fields"][d0["field"]]["shape"])
        ref = ["fld", d0["field"]]
    # f + (something scalar made from the target) * f : guarantees dependence
    if vs == ():
        s = ref
    else:
        s = ["inner", ref, ref]
    f = ["add", f, ["mul", ["fn", "sin", s], G.leaf(fsh, ())]]
    # ... and mention every variable at least once (value-equal variables must stay distinguishable)
    for k in range(len(G.vars)):
        vk = ["var", k]
        sk = vk if G.var_shapes[k] == () else ["inner", vk, vk]
        f = ["add", f, ["mul", ["mul", ["lit", k + 2], sk], G.leaf(fsh, ())]]
    total_rank = len(fsh) + sum(len(G.var_shapes[d["k"]]) if d["kind"] == "var" else len(world["fields"][d["field"]]["shape"]) for d in diffs)
    if total_rank > 4:
        diffs = diffs[:1]
    return {"world": world, "expr": f, "vars": G.vars, "diffs": diffs, "env_seed": draw(st.integers(0, 10**6))}


def strategy(tier):
    return cases(tier)


def check_case(case):
    import ufl
    from ufl.algorithms import expand_derivatives

    b, f = build_case(case)
    check_acyclic(f, "input")
    targets = []
    for d in case["diffs"]:
        if d["kind"] == "var":
            try:
                targets.append(b.var(d["k"]))
            except Exception as ex:
                raise Discard("build:" + type(ex).__name__)
        else:
            targets.append(b.fields[d["field"]])
    # every variable(...) call of the recipe defines a *new* variable: distinct labels, value of its operand
    built = [b.vars[k] for k in sorted(b.vars)]
    labs = [v.ufl_operands[1].count() for v in built if isinstance(v, ufl.classes.Variable)]
    if len(labs) != len(built) or len(set(labs)) != len(labs):
        raise Violation("variable(e) did not create a distinct Variable for every call "
                        f"(labels {labs}, types {[type(v).__name__ for v in built]})", {"kind": "variable-identity"})
    try:
        df = f
        for v in targets:
            df = ufl.diff(df, v)
        low = expand_derivatives(df)
    except RecursionError:
        raise
    except Exception as ex:
        raise Violation(f"diff/expansion raised {type(ex).__name__}: {str(ex)[:300]}", {"kind": "raised:" + exc_bucket(ex)})
    check_acyclic(low, "output")
    exp_shape = tuple(f.ufl_shape) + tuple(itertools.chain(*[v.ufl_shape for v in targets]))
    if tuple(df.ufl_shape) != exp_shape or tuple(low.ufl_shape) != exp_shape:
        raise Violation(f"shape of diff is {df.ufl_shape} / expanded {low.ufl_shape}, expected f.shape + v.shape = {exp_shape}",
                        {"kind": "shape"})
    if low.ufl_free_indices != f.ufl_free_indices:
        raise Violation("free indices changed", {"kind": "free-indices"})
    nt = len(targets)
    order_x = max(derivative_depth(f), derivative_depth(low))
    if order_x + nt > 4:
        raise Discard("jet order > 4")
    nonzero = False
    for rep in range(2):
        env = make_env(case, rep)
        got = eval_output(Guard(Interp(env, order=order_x)), low)
        exp = np.zeros(exp_shape)
        comps = [list(np.ndindex(tuple(v.ufl_shape))) for v in targets]
        for combo in itertools.product(*comps):
            I = Interp(env, order=order_x + nt, nextra=nt)
            t = I.tdim
            for j, (v, c) in enumerate(zip(targets, combo)):
                if isinstance(v, ufl.classes.Variable):
                    I.var_perturb.setdefault(v.ufl_operands[1].count(), []).append((t + j, c))
                else:
                    I.term_perturb.setdefault(repr(v), []).append((t + j, c))
            jet = Guard(I).value(f, jet=True)
            mono = [0] * I.js.n
            for j in range(nt):
                mono[t + j] = 1
            val = I.js.coeff(jet, mono)
            idx = (Ellipsis,) + tuple(itertools.chain(*combo))
            exp[idx] = np.real(val)
        if not close(exp, got, rtol=1e-7, atol=1e-9):
            raise Violation(f"diff mismatch: oracle {np.ravel(exp)[:4]} vs expanded {np.ravel(got)[:4]} (rel err {rel_err(exp, got):.3g})",
                            {"kind": "value", "rel_err": rel_err(exp, got)})
        nonzero |= bool(np.any(np.abs(exp) > 1e-12))
    ops = ops_in(case["expr"]) | set().union(*[ops_in(v) for v in case["vars"]])
    labels = ["repeated" if nt > 1 else "single"] + ["wrt:" + d["kind"] for d in case["diffs"]]
    labels += ["target_rank:%d" % len(targets[0].ufl_shape)]
    if any(ops_in(case["vars"][d["k"]]) & SPATIAL for d in case["diffs"] if d["kind"] == "var"):
        labels.append("target-wraps-spatial-derivative")
    return {"nontrivial": nonzero and bool(ops & NONLINEAR), "labels": labels}

"""C23 Complex and real mode node handling is sound.

complex mode (do_comparison_check):
  * whenever the check accepts an integrand, every operand of an ordering comparison / min / max of the *original*
    integrand has zero imaginary part under random complex coefficient, constant and literal data (numerical ground
    truth from the reference interpreter), and the processed integrand has the same value as the original;
  * integrands whose comparison operands are real by construction (real literals, geometry, abs/real/imag of
    anything, and sums, products, integer powers, real-closed functions and conditionals of those) must be accepted.
real mode (remove_complex_nodes):
  * expressions with conj/real nodes: the result has the same value for real data and contains no conj/real node;
  * expressions that (after construction) still contain an imag node or a complex literal must raise.
"""

import numpy as np
from hypothesis import strategies as st

from vf.common import Discard, Violation
from vf.gen import Gen, Profile, ops_in, worlds
from vf.interp import Interp, close, derivative_depth
from vf.props.valuecommon import warmup  # noqa: F401
from vf.props.valuecommon import Guard, build_case, check_acyclic, eval_output, exc_bucket, make_env, rel_err, same_type

LEVEL = "exploration"
RULE = (
    "Hypothesis. complex mode: scalar integrands with 1-3 comparison sites (lt/gt/le/ge conditionals, min_value, "
    "max_value) whose operands are drawn either from a typed 'real by construction' grammar (real literals, x, cell "
    "geometry, abs/real/imag of arbitrary complex expressions, closed under + * integer powers, sin/cos/exp/tanh/atan, "
    "conditionals) or from the unrestricted complex grammar (coefficients, constants, complex literals, sqrt, "
    "fractional powers, ln/acos/asin of possibly negative reals, conj); embedded in arithmetic context or below "
    "functions (sqrt/ln/acos/asin/Bessel/sin/exp), powers, abs, conj, real. real mode: "
    "expressions from the grammar with conj/real/imag nodes and complex literals. non-trivial = (complex) a comparison "
    "site with a non-trivial real operand accepted and compared, or a numerically complex operand rejected; (real) an "
    "expression with at least one conj/real node removed or an imag/complex literal rejected; distinct = distinct recipe."
)
ASSUMPTIONS = [
    "the documented typing rule of the comparison check: literals, arguments, geometry, abs/real/imag are real; "
    "coefficients, constants, sqrt and non-integer powers are complex; the numerical ground truth is 'imaginary part "
    "of the operand is non-zero for random complex data'",
]
BUDGET = {"quick": {"examples": 6000, "seconds": 70}, "thorough": {"examples": 200000, "seconds": 1500}}
# a case takes milliseconds; the failure mode found here (F19) was non-termination of the comparison check
TIMEOUT_IS_VIOLATION = True
CASE_TIMEOUT = {"quick": 20, "thorough": 60}
LABEL_FLOORS = {"quick": {"complex:accepted": 800, "complex:rejected": 300, "real:removed": 500, "real:rejected": 150}}

ANY = Profile(ops={"arith", "math", "index", "tensor", "compound", "pow", "abs", "complexops", "powx"}, cplx=True,
              leaves={"coef", "const", "lit", "x", "geo", "zero", "eye"}, max_rank=2, elements="lagrange", manifolds=False)
REALMODE = Profile(ops={"arith", "math", "index", "tensor", "compound", "pow", "abs", "complexops", "cond", "var"}, cplx=False,
                   leaves={"coef", "const", "lit", "x", "geo", "zero", "eye"}, max_rank=2, elements="lagrange", manifolds=False)


class RealGen:
    """Scalar expressions that are real by the documented rule set."""

    def __init__(self, G, draw):
        self.G = G
        self.draw = draw

    def any(self, depth):
        return self.G.expr((), (), depth)

    def real(self, depth):
        G, draw = self.G, self.draw
        if depth <= 0:
            k = G.pick(["lit", "x", "geo", "abs", "real", "imag"])
        else:
            k = G.pick(["lit", "x", "geo", "abs", "abs", "real", "imag", "add", "mul", "neg", "ipow", "fn", "cond", "div"])
        d = depth - 1
        if k == "lit":
            return ["lit", G.pick([0, 1, 2, -1, 0.5, 2.5, -1.5])]
        if k == "x":
            return ["index", ["x"], [draw(st.integers(0, G.g - 1))]]
        if k == "geo":
            return ["geo", G.pick(["CellVolume", "CellDiameter", "MaxCellEdgeLength"])]
        if k in ("abs", "real", "imag"):
            return [k, self.any(max(d, 1))]
        if k == "add":
            return ["add", self.real(d), self.real(d)]
        if k == "mul":
            return ["mul", self.real(d), self.real(d)]
        if k == "neg":
            return ["neg", self.real(d)]
        if k == "ipow":
            return ["pow", self.real(d), ["lit", G.pick([2, 3])]]
        if k == "fn":
            return ["fn", G.pick(["sin", "cos", "tanh", "atan", "exp"]), ["mul", ["lit", 0.3], self.real(d)]]
        if k == "div":
            return ["div", self.real(d), ["add", ["lit", 2], ["pow", self.real(d), ["lit", 2]]]]
        return ["cond", [G.pick(["lt", "gt", "le", "ge"]), self.real(d), self.real(d)], self.real(d), self.real(d)]


@st.composite
def complex_cases(draw):
    world = draw(worlds(ANY))
    G = Gen(draw, world, ANY)
    R = RealGen(G, draw)
    all_real = draw(st.booleans())

    def operand():
        if all_real or draw(st.integers(0, 2)) > 0:
            return R.real(draw(st.integers(0, 2)))
        k = draw(st.sampled_from(["any", "partial", "partial", "sqrt", "fpow", "mixedcond", "mixedcond"]))
        if k == "any":
            return R.any(draw(st.integers(1, 2)))
        if k == "mixedcond":
            # a conditional whose branches are of different kinds: real on one side, possibly complex on the other
            c = [draw(st.sampled_from(["lt", "gt"])), R.real(1), R.real(1)]
            br = [R.real(1), R.any(1)]
            if draw(st.booleans()):
                br.reverse()
            return ["cond", c, br[0], br[1]]
        r = R.real(1)
        if k == "partial":
            # real operand, but the function leaves the reals outside its real domain
            return ["fn", draw(st.sampled_from(["ln", "acos", "asin"])), ["sub", r, ["lit", draw(st.sampled_from([1, 2, 0.5]))]]]
        if k == "sqrt":
            return ["fn", "sqrt", ["sub", r, ["lit", 1]]]
        return ["pow", ["sub", r, ["lit", 1]], ["lit", draw(st.sampled_from([0.5, 1.5, -0.5]))]]

    def site():
        k = draw(st.sampled_from(["cond", "cond", "min", "max"]))
        if k == "cond":
            return ["cond", [draw(st.sampled_from(["lt", "gt", "le", "ge"])), operand(), operand()], R.any(1), R.any(1)]
        return [k, operand(), operand()]

    e = site()
    for _ in range(draw(st.integers(0, 2))):
        k = draw(st.sampled_from(["add", "mul", "site", "under", "under"]))
        if k == "site":
            e = ["add", e, site()]
        elif k == "under":
            # the comparison site below another operator: functions (also the ones typed 'complex'), powers, abs, ...
            u = draw(st.sampled_from(["sqrt", "ln", "acos", "asin", "bessel", "sin", "exp", "abs", "conj", "real", "pow", "neg"]))
            if u in ("sqrt", "ln", "acos", "asin", "sin", "exp"):
                e = ["fn", u, ["mul", ["lit", 0.3], e]]
            elif u == "bessel":
                e = ["bessel", draw(st.sampled_from(["J", "I"])), draw(st.sampled_from([0, 1])), ["real", e]]
            elif u == "pow":
                e = ["pow", e, ["lit", draw(st.sampled_from([2, 0.5]))]]
            else:
                e = [u, e]
        else:
            e = [k, e, R.any(1)]
    return {"world": world, "expr": e, "vars": G.vars, "mode": "complex", "all_real": all_real}


@st.composite
def real_cases(draw):
    world = draw(worlds(REALMODE))
    prof = Profile(ops=REALMODE.ops, cplx=draw(st.integers(0, 3)) == 0, leaves=REALMODE.leaves, max_rank=2,
                   elements="lagrange", manifolds=False)
    G = Gen(draw, world, prof)
    g = world["gdim"]
    sh = draw(st.sampled_from([(), (), (g,)]))
    e = G.expr(sh, (), draw(st.integers(1, 3)))
    # make sure conj/real nodes are present in most cases
    k = draw(st.sampled_from(["conj", "real", "conjreal", "imag", "none", "incond", "incond", "imagincond"]))
    inner = G.expr(sh, (), 1)
    if k == "conj":
        e = ["add", e, ["conj", inner]]
    elif k == "real":
        e = ["add", e, ["real", inner]]
    elif k == "conjreal":
        e = ["add", ["conj", e], ["real", ["conj", inner]]]
    elif k == "imag":
        e = ["add", e, ["imag", inner]]
    elif k in ("incond", "imagincond"):
        # complex nodes below a condition
        a, b_ = G.expr((), (), 1), G.expr((), (), 1)
        w = "imag" if k == "imagincond" else draw(st.sampled_from(["conj", "real"]))
        c = [draw(st.sampled_from(["lt", "gt", "le", "ge"])), [w, a], b_]
        if draw(st.booleans()):
            c = ["not", c] if draw(st.booleans()) else ["and", c, ["lt", b_, ["conj", a]]]
        e = ["cond", c, e, ["mul", ["lit", 2], e]]
    return {"world": world, "expr": e, "vars": G.vars, "mode": "real"}


@st.composite
def cases(draw, tier):
    c = draw(complex_cases()) if draw(st.integers(0, 2)) > 0 else draw(real_cases())
    c["env_seed"] = draw(st.integers(0, 10**6))
    return c


def strategy(tier):
    return cases(tier)


def comparison_operands(e):
    from ufl.classes import GE, GT, LE, LT, MaxValue, MinValue
    from ufl.corealg.traversal import unique_pre_traversal

    out = []
    for n in unique_pre_traversal(e):
        if isinstance(n, (LT, GT, LE, GE, MinValue, MaxValue)):
            out.extend(n.ufl_operands)
    return out


def check_complex(case, b, e):
    from ufl.algorithms.comparison_checker import ComplexComparisonError, do_comparison_check

    try:
        out = do_comparison_check(e)
        accepted = True
    except ComplexComparisonError:
        accepted = False
    except RecursionError:
        raise
    except Exception as ex:
        raise Violation(f"do_comparison_check raised {type(ex).__name__}: {str(ex)[:300]}", {"kind": "raised:" + exc_bucket(ex)})
    ops = comparison_operands(e)
    if not ops:
        raise Discard("no comparison left after construction")
    # numerical ground truth: is some comparison operand complex for complex data?
    worst = 0.0
    for rep in range(2):
        I = Interp(make_env(case, rep, cplx=True))
        for o in ops:
            try:
                with np.errstate(all="ignore"):
                    v = I.value(o)
            except Exception:
                raise Discard("operand not evaluable")
            if not np.all(np.isfinite(v)):
                raise Discard("illcond:nonfinite operand")
            worst = max(worst, float(np.max(np.abs(np.imag(v)), initial=0.0)))
    complex_operand = worst > 1e-9
    labels = ["complex:accepted" if accepted else "complex:rejected"]
    if accepted and complex_operand:
        raise Violation(f"comparison check accepted an integrand with a complex comparison operand (|imag| up to {worst:.3g})",
                        {"kind": "accepted-complex-operand"})
    if not accepted:
        if case.get("all_real"):
            raise Violation("comparison check rejected an integrand whose comparison operands are real by construction",
                            {"kind": "rejected-real"})
        return {"nontrivial": complex_operand, "labels": labels}
    check_acyclic(out, "output")
    if not same_type(e, out):
        raise Violation("shape/free indices changed", {"kind": "type-changed"})
    # operands are wrapped in Real: value unchanged (real data for the fields, the semantics of the statement)
    for rep in range(2):
        for cplx in (False, True):
            G = Guard(Interp(make_env(case, rep, cplx=cplx)))
            a = G.value(e)
            bv = eval_output(G, out)
            if not close(a, bv, rtol=1e-8, atol=1e-10):
                raise Violation(f"value changed by the comparison check: {np.ravel(a)[:2]} vs {np.ravel(bv)[:2]}", {"kind": "value"})
    from ufl.classes import Real

    for o in comparison_operands(out):
        if not isinstance(o, Real) and not o._ufl_is_terminal_:
            pass
    return {"nontrivial": True, "labels": labels + (["all-real"] if case.get("all_real") else [])}


def check_real(case, b, e):
    from ufl.algorithms.remove_complex_nodes import remove_complex_nodes
    from ufl.classes import ComplexValue, Conj, Imag, Real
    from ufl.corealg.traversal import unique_pre_traversal

    # as in compute_form_data: compound tensor algebra is lowered first (re-building an unlowered Inner may itself
    # introduce a Conj through operand sorting)
    from ufl.algorithms.apply_algebra_lowering import apply_algebra_lowering

    try:
        e = apply_algebra_lowering(e)
    except RecursionError:
        raise
    except Exception as ex:
        raise Discard("pre:" + type(ex).__name__)
    nodes = list(unique_pre_traversal(e))
    must_raise = any(isinstance(n, (Imag, ComplexValue)) for n in nodes)
    has_cr = any(isinstance(n, (Conj, Real)) for n in nodes)
    try:
        out = remove_complex_nodes(e)
        raised = None
    except RecursionError:
        raise
    except Exception as ex:
        raised = ex
    if must_raise:
        if raised is None:
            raise Violation("remove_complex_nodes accepted an expression with an imaginary part or a complex literal",
                            {"kind": "accepted-imag"})
        return {"nontrivial": True, "labels": ["real:rejected"]}
    if raised is not None:
        raise Violation(f"remove_complex_nodes raised {type(raised).__name__}: {str(raised)[:300]}", {"kind": "raised:" + exc_bucket(raised)})
    check_acyclic(out, "output")
    if not same_type(e, out):
        raise Violation("shape/free indices changed", {"kind": "type-changed"})
    for n in unique_pre_traversal(out):
        if isinstance(n, (Conj, Real, Imag)):
            raise Violation(f"{type(n).__name__} node left in the result", {"kind": "node-left"})
    for rep in range(2):
        G = Guard(Interp(make_env(case, rep, cplx=False)))
        a = G.value(e)
        bv = eval_output(G, out)
        if not close(a, bv, rtol=1e-8, atol=1e-10):
            raise Violation(f"value changed for real data: {np.ravel(a)[:2]} vs {np.ravel(bv)[:2]}", {"kind": "value"})
    return {"nontrivial": has_cr, "labels": ["real:removed" if has_cr else "real:nothing-to-remove"]}


def check_case(case):
    b, e = build_case(case)
    check_acyclic(e, "input")
    if case["mode"] == "complex":
        return check_complex(case, b, e)
    return check_real(case, b, e)

"""C28 Base-form algebra has the semantics of the linear maps it denotes.

Finite-dimensional model.  Three function spaces V0, V1, V2 get dimensions 2, 3, 2 by fixing that many basis fields
(polynomial coefficient arrays) per space.  Leaves: Matrix(Vi, Vj) and Cofunction(Vi*) are random arrays; a Form is
assembled by evaluating its integrands with the reference interpreter at three fixed points with the arguments
replaced by basis fields (a fixed random linear functional of the integrand: additive and homogeneous, so sums and
scalings of forms are exact); a Coefficient used as data is a combination of the basis fields of its space.
Typed recipes compose leaves with + - scalar*, explicit FormSum, Action / action(), Adjoint / adjoint(), ZeroBaseForm.
Oracle: the tensor obtained by walking the object UFL returned (FormSum = weighted sum, Action = contraction of the last
slot of the left with the first of the right, Adjoint = transpose, ZeroBaseForm = zeros) equals the tensor computed
from the recipe with numpy (for derivatives: the exact derivative of the recipe's tensor, a polynomial in the
differentiation variable, from 7 samples); the dimensions of obj.arguments() equal the tensor's shape; every coefficient the tensor
depends on is reported by obj.coefficients().
"""

import numpy as np
from hypothesis import strategies as st

from vf.common import Discard, Violation
from vf.interp import Env, Interp
from vf.refcell import Geometry

LEVEL = "exploration"
RULE = (
    "Hypothesis: typed recipes of depth <= 4 over Matrix, Cofunction, bilinear/linear/argument-free Forms from templates "
    "with coefficient data, ZeroBaseForm; weighted sums through + - scalar* and through explicit FormSum((c, w), ...) incl. "
    "nested sums, repeated components and cancelling weights; Action with Coefficients on either side, Action of sums, "
    "action()/adjoint() function forms, Adjoint of Adjoint, Adjoint of sums; in a third of the cases the composition is "
    "also differentiated (expand_derivatives(derivative(.))) w.r.t. a data coefficient in the direction of a coefficient "
    "or a new argument. non-trivial = the recipe contains at least "
    "two composition nodes, one of them a sum with a weight different from 1 or an Action/Adjoint of a sum, and the "
    "tensor is non-zero; distinct = distinct recipe."
)
ASSUMPTIONS = ["real data (adjoint = transpose)", "forms are assembled with the harness' linear functional; leaves are random arrays"]
BUDGET = {"quick": {"examples": 2500, "seconds": 70}, "thorough": {"examples": 80000, "seconds": 1500}}
LABEL_FLOORS = {"quick": {"derivative-of-sum": 120, "formsum": 800, "action": 800, "adjoint": 400, "explicit-formsum": 250}}
CASE_TIMEOUT = {"quick": 30, "thorough": 60}

DIMS = [2, 3, 2]
WEIGHTS = [1, 1, 2, -1, 3, 0.5, -2]


def coefs_in(r, acc=None):
    acc = [] if acc is None else acc
    if isinstance(r, list):
        if len(r) == 3 and r[0] == "coef":
            if r not in acc:
                acc.append(r)
        else:
            for x in r:
                coefs_in(x, acc)
    return acc


@st.composite
def cases(draw, tier):
    def weight():
        return draw(st.sampled_from(WEIGHTS))

    def leaf(t):
        if len(t) == 2:
            k = draw(st.sampled_from(["matrix", "matrix", "form2", "form2", "zero"]))
            if k == "matrix":
                return ["matrix", t[0], t[1], draw(st.integers(0, 1))]
            if k == "form2":
                return ["form2", t[0], t[1], draw(st.integers(0, 3))]
            return ["zero", list(t)]
        if len(t) == 1:
            k = draw(st.sampled_from(["cofunction", "cofunction", "form1", "form1", "zero"]))
            if k == "cofunction":
                return ["cofunction", t[0], draw(st.integers(0, 1))]
            if k == "form1":
                return ["form1", t[0], draw(st.integers(0, 2))]
            return ["zero", list(t)]
        return ["form0", draw(st.integers(0, 1))]

    def gen(t, depth):
        if depth <= 0:
            return leaf(t)
        opts = ["leaf", "sum", "sum", "scale", "fsum"]
        if len(t) == 2:
            opts += ["adjoint", "adjoint", "adjoint_fn"]
        if len(t) <= 1:
            opts += ["action", "action", "action_fn", "action_adj"]
        if len(t) >= 1:
            opts += ["arg_identity", "coarg_identity"]
        if len(t) == 2:
            opts += ["action_zero2"]
        if len(t) == 0:
            opts += ["coef_left"]
        k = draw(st.sampled_from(opts))
        d = depth - 1
        if k == "leaf":
            return leaf(t)
        if k == "sum":
            return ["sum", [[weight(), gen(t, d)] for _ in range(draw(st.integers(2, 3)))]]
        if k == "fsum":
            comps = [[weight(), gen(t, d)] for _ in range(draw(st.integers(2, 3)))]
            if draw(st.booleans()):
                comps.append([weight(), comps[0][1]])  # a repeated component
            return ["fsum", comps]
        if k == "scale":
            return ["sum", [[weight(), gen(t, d)]]]
        if k == "arg_identity":
            # Action(T, Argument) : an Argument V -> V on the right is the identity
            return ["arg_identity", gen(t, d)]
        if k == "coarg_identity":
            return ["coarg_identity", gen(t, d)]
        if k == "action_zero2":
            # composition of two 2-forms whose right factor is the zero 2-form: zero (t[0], t[1])
            j = draw(st.integers(0, 2))
            return ["action_zero2", gen((t[0], j), d), ["zero", [j, t[1]]]]
        if k == "adjoint":
            return ["adjoint", gen((t[1], t[0]), d)]
        if k == "adjoint_fn":
            return ["adjoint_fn", gen((t[1], t[0]), d)]
        j = draw(st.integers(0, 2))
        u = ["coef", j, draw(st.integers(0, 1))]
        if k == "action":
            return ["action", gen(tuple(t) + (j,), d), u]
        if k == "action_fn":
            return ["action_fn", gen(tuple(t) + (j,), d), u]
        if k == "action_adj":
            if len(t) == 1:
                return ["action", ["adjoint", gen((j, t[0]), d)], u]
            return ["action", gen((j,), d), u]
        return ["coef_left", u, gen((j,), d)]

    t = draw(st.sampled_from([(0, 1), (1, 1), (2, 0), (0,), (1,), (2,), ()]))
    recipe = gen(t, draw(st.integers(2, 4)))
    deriv = None
    if draw(st.integers(0, 5)) == 0:
        # the compositions derivative() supports beyond plain forms: weighted sums of scalars <c_j, u_k> (Action of a
        # cofunction or a one-form with a coefficient), argument-free forms, nested sums; w.r.t. one of the u_k
        def friendly(depth):
            comps = []
            for _ in range(draw(st.integers(2, 4))):
                kind = draw(st.sampled_from(["act", "act", "act", "actf", "form0", "nest"]))
                j = draw(st.integers(0, 2))
                if kind == "act":
                    x = ["action", ["cofunction", j, draw(st.integers(0, 1))], ["coef", j, draw(st.integers(0, 1))]]
                elif kind == "actf":
                    x = ["action", ["form1", j, draw(st.integers(0, 2))], ["coef", j, draw(st.integers(0, 1))]]
                elif kind == "nest" and depth > 0:
                    x = friendly(depth - 1)
                else:
                    x = ["form0", draw(st.integers(0, 1))]
                comps.append([weight(), x])
            return [draw(st.sampled_from(["sum", "fsum"])), comps]

        recipe = friendly(1)
        t = ()
        used = coefs_in(recipe)
        deriv = {"wrt": draw(st.sampled_from(used)) if used else ["f0"], "dir": draw(st.sampled_from(["arg", "arg", "arg", "coef"]))}
    elif draw(st.integers(0, 2)) == 0:
        # derivative of the composition w.r.t. a data coefficient (one used as an Action operand, or f0 inside the
        # forms), in the direction of a given coefficient or of a new argument
        used = coefs_in(recipe)
        wrt = draw(st.sampled_from(used + [["f0"]])) if used else ["f0"]
        deriv = {"wrt": wrt, "dir": draw(st.sampled_from(["coef", "coef", "arg"]))}
    return {"recipe": recipe, "type": list(t), "derivative": deriv, "env_seed": draw(st.integers(0, 10**6))}


def strategy(tier):
    return cases(tier)


class Model:
    def __init__(self, seed):
        import ufl

        from vf.elements import make_element, make_mesh

        self.ufl = ufl
        self.rng = np.random.default_rng([seed, 28])
        self.mesh = make_mesh("triangle", 2)
        specs = [["P", 1, []], ["P", 2, []], ["DG", 1, []]]
        self.V = [ufl.FunctionSpace(self.mesh, make_element(s, "triangle")) for s in specs]
        geo = Geometry.random(self.rng, "triangle", 2)
        self.points = [(geo, geo.random_cell_point(self.rng), float(self.rng.uniform(0.2, 1.0))) for _ in range(3)]
        probe = Interp(Env(geo, self.points[0][1], seed=seed), order=1)
        self.nmono = len(probe._monomials(None, False)[0])
        self.basis = [[self.rng.uniform(-1, 1, (1, self.nmono)) for _ in range(DIMS[k])] for k in range(3)]
        self.seed = seed
        self.objs = {}
        self.tensors = {}  # repr of a leaf object -> array
        self.coefvec = {}  # repr of a data coefficient -> (space, vector)
        self.f_data = [ufl.Coefficient(self.V[0]), ufl.Coefficient(self.V[1])]  # coefficient data inside forms
        self.f_arrays = {repr(f): self.rng.uniform(-1, 1, (1, self.nmono)) for f in self.f_data}
        self.c = ufl.Constant(self.mesh)
        self.cval = float(self.rng.uniform(0.5, 1.5))

    # ---- leaves
    def matrix(self, i, j, k):
        key = ("matrix", i, j, k)
        if key not in self.objs:
            M = self.ufl.Matrix(self.V[i], self.V[j])
            self.objs[key] = M
            self.tensors[repr(M)] = self.rng.uniform(-1, 1, (DIMS[i], DIMS[j]))
        return self.objs[key]

    def cofunction(self, i, k):
        key = ("cof", i, k)
        if key not in self.objs:
            c = self.ufl.Cofunction(self.V[i].dual())
            self.objs[key] = c
            self.tensors[repr(c)] = self.rng.uniform(-1, 1, (DIMS[i],))
        return self.objs[key]

    def coef(self, j, k):
        key = ("coef", j, k)
        if key not in self.objs:
            u = self.ufl.Coefficient(self.V[j])
            self.objs[key] = u
            self.coefvec[repr(u)] = (j, self.rng.uniform(-1, 1, DIMS[j]))
        return self.objs[key]

    def form(self, kind, spaces, k):
        ufl = self.ufl
        key = (kind, tuple(spaces), k)
        if key in self.objs:
            return self.objs[key]
        f0, f1 = self.f_data
        x = ufl.SpatialCoordinate(self.mesh)
        if kind == "form2":
            v = ufl.Argument(self.V[spaces[0]], 0)
            u = ufl.Argument(self.V[spaces[1]], 1)
            F = [u * v * ufl.dx, ufl.inner(ufl.grad(u), ufl.grad(v)) * ufl.dx + f0 * u * v * ufl.dx(1),
                 self.c * u.dx(0) * v * ufl.dx, (1 + f1 * f1) * u * v.dx(1) * ufl.ds][k]
        elif kind == "form1":
            v = ufl.Argument(self.V[spaces[0]], 0)
            F = [f0 * v * ufl.dx, ufl.sin(f1) * v.dx(0) * ufl.dx + self.c * v * ufl.ds, x[0] * v * ufl.dx(2)][k]
        else:
            F = [f0 * f1 * ufl.dx, self.c * x[1] * ufl.ds][k]
        self.objs[key] = F
        return F

    # ---- assembling a Form with the harness' functional
    def assemble(self, form, extra=None):
        """tensor of a ufl Form: arguments -> basis fields; data coefficients -> their fields"""
        args = sorted(form.arguments(), key=lambda a: a.number())
        spaces = [self.V.index(a.ufl_function_space()) for a in args]
        shape = tuple(DIMS[s] for s in spaces)
        out = np.zeros(shape)
        from vf.interp import derivative_depth

        for itg in form.integrals():
            order = derivative_depth(itg.integrand())
            for idx in np.ndindex(*shape) if shape else [()]:
                tot = 0.0
                for geo, X, wq in self.points:
                    env = Env(geo, X, facet=0, weight=wq, seed=self.seed)
                    env.fixed["const:" + repr(self.c)] = np.asarray(self.cval)
                    for r, arr in self.f_arrays.items():
                        env.fixed["rp:" + r] = arr
                    for r, (j, vec) in self.coefvec.items():
                        env.fixed["rp:" + r] = sum(vec[a] * self.basis[j][a] for a in range(DIMS[j]))
                    for a, s, i_ in zip(args, spaces, idx):
                        env.fixed["rp:" + repr(a)] = self.basis[s][i_]
                    I = Interp(env, order=order)
                    with np.errstate(all="ignore"):
                        tot += wq * float(np.real(I.value(itg.integrand())))
                out[idx] += tot
        return out

    # ---- the recipe side
    def build(self, r):
        """-> (ufl object, numpy tensor, set of data-coefficient reprs the tensor depends on)"""
        ufl = self.ufl
        k = r[0]
        if k == "matrix":
            M = self.matrix(r[1], r[2], r[3])
            return M, self.tensors[repr(M)], set()
        if k == "cofunction":
            c = self.cofunction(r[1], r[2])
            return c, self.tensors[repr(c)], set()
        if k in ("form2", "form1", "form0"):
            spaces = r[1:-1]
            F = self.form(k, spaces, r[-1])
            return F, self.assemble(F), set()
        if k == "zero":
            args = tuple(ufl.Argument(self.V[s], n) for n, s in enumerate(r[1]))
            return ufl.ZeroBaseForm(args), np.zeros(tuple(DIMS[s] for s in r[1])), set()
        if k in ("sum", "fsum"):
            parts = [(w, self.build(x)) for w, x in r[1]]
            T = sum(w * p[1] for w, p in parts)
            deps = set().union(*[p[2] for w, p in parts if w != 0])
            if k == "fsum":
                obj = ufl.FormSum(*[(p[0], w) for w, p in parts])
            else:
                obj = None
                for w, p in parts:
                    term = p[0] if w == 1 else (-p[0] if w == -1 else w * p[0])
                    obj = term if obj is None else obj + term
            return obj, T, deps
        if k in ("adjoint", "adjoint_fn"):
            o, T, deps = self.build(r[1])
            return (ufl.Adjoint(o) if k == "adjoint" else ufl.adjoint(o)), T.T, deps
        if k in ("action", "action_fn"):
            o, T, deps = self.build(r[1])
            u = self.coef(r[2][1], r[2][2])
            vec = self.coefvec[repr(u)][1]
            return (ufl.Action(o, u) if k == "action" else ufl.action(o, u)), np.tensordot(T, vec, axes=([T.ndim - 1], [0])), deps | {repr(u)}
        if k in ("arg_identity", "coarg_identity"):
            o, T, deps = self.build(r[1])
            if isinstance(o, (int, float)) or not o.arguments():
                return o, T, deps
            args = sorted(o.arguments(), key=lambda a: a.number())
            if k == "arg_identity":
                ident = ufl.Argument(args[-1].ufl_function_space(), args[-1].number())
                return ufl.Action(o, ident), T, deps
            ident = ufl.Coargument(args[0].ufl_function_space().dual(), 0)
            return ufl.Action(ident, o), T, deps
        if k == "action_zero2":
            o, T, deps = self.build(r[1])
            z, Tz, _ = self.build(r[2])
            return ufl.Action(o, z), np.zeros((T.shape[0], Tz.shape[1])), set()
        if k == "coef_left":
            u = self.coef(r[1][1], r[1][2])
            o, T, deps = self.build(r[2])
            return ufl.Action(u, o), float(np.dot(self.coefvec[repr(u)][1], T)), deps | {repr(u)}
        raise ValueError(k)

    # ---- the ufl side: walk whatever ufl returned
    def evaluate(self, o):
        ufl = self.ufl
        from ufl.classes import Action, Adjoint, Coefficient, Cofunction, Form, FormSum, Matrix, ZeroBaseForm

        if isinstance(o, (int, float)):
            return np.asarray(float(o))
        if isinstance(o, Form):
            return self.assemble(o)
        if isinstance(o, (Matrix, Cofunction)):
            return self.tensors[repr(o)]
        if isinstance(o, ZeroBaseForm):
            return np.zeros(tuple(DIMS[self.V.index(a.ufl_function_space())] for a in o.arguments()))
        if isinstance(o, FormSum):
            return sum(float(w) * self.evaluate(c) for c, w in zip(o.components(), o.weights()))
        if isinstance(o, Adjoint):
            return self.evaluate(o.form()).T
        if isinstance(o, Action):
            from ufl.classes import Argument, Coargument

            left, right = o.left(), o.right()

            def operand(x):
                if isinstance(x, Coefficient):
                    return self.coefvec[repr(x)][1]
                if isinstance(x, Coargument):
                    return np.eye(DIMS[self.V.index(x.ufl_function_space().dual())])
                if isinstance(x, Argument):
                    return np.eye(DIMS[self.V.index(x.ufl_function_space())])
                return self.evaluate(x)

            L, R = operand(left), operand(right)
            return np.tensordot(L, R, axes=([L.ndim - 1], [0]))
        raise Discard("unsupported object in the result: " + type(o).__name__)


def check_derivative(M, case, obj):
    """expand_derivatives(derivative(obj, w, direction)) against the derivative of the recipe's tensor, which is a
    polynomial of degree <= 6 in the parameter s of w + s*dw: exact from 7 samples."""
    import ufl
    from ufl.algorithms import expand_derivatives

    from vf.props.valuecommon import exc_bucket

    d = case["derivative"]
    if isinstance(obj, (int, float)):
        raise Discard("the composition folded to a number")
    if d["wrt"] == ["f0"]:
        w = M.f_data[0]
        j = 0
        base = M.f_arrays[repr(w)]
        dirs = [M.basis[0][a] for a in range(DIMS[0])]

        def setw(arr):
            M.f_arrays[repr(w)] = arr
    else:
        w = M.coef(d["wrt"][1], d["wrt"][2])
        j = d["wrt"][1]
        base = M.coefvec[repr(w)][1]
        dirs = [np.eye(DIMS[j])[a] for a in range(DIMS[j])]

        def setw(vec):
            M.coefvec[repr(w)] = (j, vec)

    def tensor_derivative(direction):
        ss = np.arange(-3, 4)
        vals = []
        for s_ in ss:
            setw(base + s_ * direction)
            vals.append(np.asarray(M.build(case["recipe"])[1], dtype=float))
        setw(base)
        V = np.vander(ss.astype(float), 7, increasing=True)
        coef = np.linalg.solve(V, np.stack([v.ravel() for v in vals]))
        return coef[1].reshape(vals[0].shape)

    if d["dir"] == "coef":
        dw = ufl.Coefficient(M.V[j])
        mix = M.rng.uniform(-1, 1, len(dirs))
        direction = sum(c * x for c, x in zip(mix, dirs))
        if d["wrt"] == ["f0"]:
            M.f_arrays[repr(dw)] = direction
        else:
            M.coefvec[repr(dw)] = (j, direction)
        exp = tensor_derivative(direction)
        args_d = (dw,)
    else:
        exp = np.stack([tensor_derivative(x) for x in dirs], axis=-1)
        args_d = ()
    try:
        D = expand_derivatives(ufl.derivative(obj, w, *args_d))
    except RecursionError:
        raise
    except NotImplementedError as ex:
        raise Discard("derivative not implemented: " + str(ex)[:40])
    except Exception as ex:
        # derivative() supports a narrow set of compositions (FormSum of supported parts, Action with a one-form on the
        # left and an Argument direction, ...); outside it raises assorted errors -- counted, not reported (DESIGN 11)
        raise Discard("derivative raised " + type(ex).__name__ + "@" + exc_bucket(ex)[-40:])
    got = np.asarray(M.evaluate(D), dtype=float)
    scale = max(1.0, float(np.max(np.abs(exp), initial=0)))
    if np.max(np.abs(exp), initial=0) <= 1e-10 * scale:
        if np.max(np.abs(got), initial=0) > 1e-9:
            raise Violation(f"the derivative must vanish but ufl's result denotes {np.ravel(got)[:4]}", {"kind": "derivative-value"})
        return False
    if got.shape != exp.shape:
        raise Violation(f"the derivative ufl returned denotes a tensor of shape {got.shape}, expected {exp.shape}", {"kind": "derivative-shape"})
    if not np.allclose(got, exp, rtol=1e-7, atol=1e-9 * scale):
        raise Violation(f"the derivative ufl returned denotes {np.ravel(got)[:4]} but the derivative of the composition is {np.ravel(exp)[:4]}",
                        {"kind": "derivative-value"})
    return True


def count_nodes(r, acc):
    if isinstance(r, list) and r and isinstance(r[0], str):
        acc[r[0]] = acc.get(r[0], 0) + 1
        for x in r[1:]:
            count_nodes(x, acc)
    elif isinstance(r, list):
        for x in r:
            count_nodes(x, acc)
    return acc


def check_case(case):
    M = Model(case["env_seed"])
    try:
        obj, T, deps = M.build(case["recipe"])
    except Discard:
        raise
    except RecursionError:
        raise
    except Exception as ex:
        # a well-typed composition was rejected
        from vf.props.valuecommon import exc_bucket

        raise Violation(f"well-typed composition raised {type(ex).__name__}: {str(ex)[:300]}", {"kind": "raised:" + exc_bucket(ex)})
    T = np.asarray(T, dtype=float)
    try:
        got = np.asarray(M.evaluate(obj), dtype=float)
    except RecursionError:
        raise Violation("the object ufl returned contains itself (an operand was re-initialised in place)", {"kind": "cycle"})
    if got.shape != T.shape:
        raise Violation(f"the object ufl returned denotes a tensor of shape {got.shape}, the composition one of shape {T.shape}", {"kind": "shape"})
    scale = max(1.0, float(np.max(np.abs(T), initial=0)))
    if not np.allclose(got, T, rtol=1e-8, atol=1e-10 * scale):
        raise Violation(f"the object ufl returned denotes {np.ravel(got)[:4]} but the composition is {np.ravel(T)[:4]}", {"kind": "value"})
    if not isinstance(obj, (int, float)):
        args = obj.arguments()
        dims = tuple(DIMS[M.V.index(a.ufl_function_space())] for a in sorted(args, key=lambda a: a.number()))
        if dims != T.shape:
            raise Violation(f"arguments() report slots of dimensions {dims}, the linear map has shape {T.shape}", {"kind": "arguments"})
        if [a.number() for a in sorted(args, key=lambda a: a.number())] != list(range(len(args))):
            raise Violation("arguments() are not numbered 0..n-1", {"kind": "argument-numbers"})
        if np.max(np.abs(T), initial=0) > 1e-12:
            reported = {repr(c) for c in obj.coefficients()}
            # a data coefficient matters if the tensor changes when it is changed
            for r in deps:
                if r not in reported:
                    j, vec = M.coefvec[r]
                    M.coefvec[r] = (j, vec * 2.0 + 0.3)
                    changed = not np.allclose(np.asarray(M.evaluate(obj), dtype=float), got, rtol=1e-9, atol=1e-12)
                    M.coefvec[r] = (j, vec)
                    if changed:
                        raise Violation("the tensor depends on a coefficient that coefficients() does not report", {"kind": "coefficients"})
    acc = count_nodes(case["recipe"], {})
    labels = []
    if case.get("derivative"):
        if check_derivative(M, case, obj):
            labels.append("derivative:" + case["derivative"]["dir"])
            if acc.get("sum") or acc.get("fsum"):
                labels.append("derivative-of-sum")
    if acc.get("sum") or acc.get("fsum"):
        labels.append("formsum")
    if acc.get("fsum"):
        labels.append("explicit-formsum")
    if acc.get("action") or acc.get("action_fn") or acc.get("coef_left"):
        labels.append("action")
    if acc.get("adjoint") or acc.get("adjoint_fn"):
        labels.append("adjoint")
    if acc.get("arg_identity") or acc.get("coarg_identity"):
        labels.append("identity-argument")
    ncomp = sum(acc.get(k, 0) for k in ("sum", "fsum", "action", "action_fn", "adjoint", "adjoint_fn", "coef_left", "arg_identity",
                                        "coarg_identity", "action_zero2"))
    return {"nontrivial": ncomp >= 2 and bool(np.max(np.abs(T), initial=0) > 1e-12) and "formsum" in labels, "labels": labels}

"""C29 Commutative constructors are order independent.

Pools of 3-5 operand expressions of one shape / free-index set are generated (independent recipes, rebuilt copies,
single-edit variants, operands that share sub-expression *objects*, arguments that differ only in their part,
coefficients/constants/indices that differ only in their count) and the canonical ordering is checked to be a
consistent total preorder:

   cmp(a, a) = 0;  sign cmp(a, b) = -sign cmp(b, a);  cmp(a,b) <= 0 and cmp(b,c) <= 0  =>  cmp(a,c) <= 0;
   a == b => cmp(a, b) = 0;  sorted_expr of every permutation of the pool agrees position-wise up to ties;
and, whenever cmp(a, b) != 0:   a + b == b + a,   a * b == b * a,   inner(b, a) == conj(inner(a, b))  structurally.
Pairs with cmp = 0 that are not equal (they differ only in index / label numbers) are outside the property and counted.
"""

import itertools

from hypothesis import strategies as st

from vf.common import Discard, Violation
from vf.gen import Gen, Profile, worlds
from vf.props.c19 import SharedBuilder

LEVEL = "exploration"
RULE = (
    "Hypothesis: pools of 3-5 expressions of equal shape and free indices from the grammar (arithmetic, index notation, "
    "tensors, conditionals, math functions, compound algebra, derivatives, restrictions excluded) over coefficients, "
    "constants, arguments with parts (same number, different part), shared sub-expression objects referenced from "
    "several pool members, copies rebuilt from the same recipe and variants with one edited leaf/literal/fixed index. "
    "All pairs, all triples and up to 24 permutations per pool. non-trivial = the pool contains at least two operands "
    "with cmp != 0 that share a sub-expression or have equal top-level type; distinct = distinct pool."
)
ASSUMPTIONS = ["pairs that compare equal without being == (index/label numbers only) are excluded from the commutation claims, as the statement says"]
BUDGET = {"quick": {"examples": 4000, "seconds": 70}, "thorough": {"examples": 150000, "seconds": 1500}}
LABEL_FLOORS = {"quick": {"pool": 2500, "has-ties": 100}}

OPS = {"arith", "math", "cond", "index", "tensor", "compound", "deriv", "pow", "abs", "var", "sign"}
PROF = Profile(ops=OPS, leaves={"coef", "const", "lit", "x", "geo", "zero", "eye", "arg"}, max_rank=2, elements="lagrange",
               manifolds=False, weights={"var": 3}, nindex=3)


def edit(draw, r):
    """one small edit somewhere in a recipe"""
    if not isinstance(r, list) or not r:
        return r
    if r[0] == "lit" and len(r) == 2 and not isinstance(r[1], dict):
        # (incl. floats whose digit groups differ only by leading zeros: 1.05 / 1.5, 2.005 / 2.05 / 2.5, 0.01 / 0.1)
        return ["lit", draw(st.sampled_from([0.5, 2, 3, -1, 7, 1.05, 1.5, 2.005, 2.05, 2.5, 0.01, 0.1]))]
    if r[0] == "fld" and len(r) == 2:
        return r
    idx = [k for k, x in enumerate(r) if isinstance(x, list) and x]
    if not idx:
        return r
    k = draw(st.sampled_from(idx))
    return r[:k] + [edit(draw, r[k])] + r[k + 1:]


def swap_fields(r, a, b):
    if isinstance(r, list):
        if r == ["fld", a]:
            return ["fld", b]
        return [swap_fields(x, a, b) for x in r]
    return r


@st.composite
def cases(draw, tier):
    world = draw(worlds(PROF))
    g = world["gdim"]
    # arguments that differ only in their part, coefficients of one space that differ only in their count
    sp = draw(st.sampled_from([["P", 1, []], ["P", 2, []], ["P", 1, [g]]]))
    for p_ in range(2):
        world["fields"][f"v{p_}"] = dict(kind="arg", elem=sp, shape=list(sp[2]), number=0, part=p_)
    world["fields"]["f1"] = dict(world["fields"]["f0"])
    world["fields"]["w1"] = dict(world["fields"]["w0"])
    G = Gen(draw, world, PROF)
    plain = []
    for _ in range(draw(st.integers(0, 3))):
        sh_ = draw(st.sampled_from([(), (), (g,)]))
        G.new_var(G.expr(sh_, (), draw(st.integers(1, 2))), sh_)
        if draw(st.integers(0, 3)) > 0:
            plain.append(len(G.vars) - 1)
    sh = draw(st.sampled_from([(), (), (), (g,), (g, g)]))
    free = tuple(G.names[: draw(st.sampled_from([0, 0, 0, 1]))]) if len(sh) < 2 else ()
    pool = []
    n = draw(st.integers(3, 5))
    while len(pool) < n:
        k = draw(st.sampled_from(["new", "new", "copy", "edit", "swapcoef", "swappart", "shareddiff", "litpair"])) if pool else "new"
        if k == "new":
            pool.append(G.expr(sh, free, draw(st.integers(1, 3))))
        elif k == "copy":
            pool.append(draw(st.sampled_from(pool)))
        elif k == "edit":
            pool.append(edit(draw, draw(st.sampled_from(pool))))
        elif k == "litpair":
            base = draw(st.sampled_from(pool))
            a, b_ = draw(st.sampled_from([(1.05, 1.5), (2.005, 2.05), (2.05, 2.5), (0.01, 0.1), (10.5, 1.05), (3, 3.0)]))
            op_ = draw(st.sampled_from(["mul", "add"])) if sh == () else "mul"
            pool.append([op_, ["lit", a], base] if op_ == "mul" else ["add", ["lit", a], base])
            pool.append([op_, ["lit", b_], base] if op_ == "mul" else ["add", ["lit", b_], base])
        elif k == "swapcoef":
            a, b = draw(st.sampled_from([("f0", "f1"), ("w0", "w1"), ("f1", "f0")]))
            pool.append(swap_fields(draw(st.sampled_from(pool)), a, b))
        elif k == "swappart":
            base = draw(st.sampled_from(pool))
            t = G.leaf_field_only((), ()) if sh == () else None
            if sh == tuple(sp[2]) and not free:
                pool.append(["add", base, ["fld", "v0"]])
                pool.append(["add", base, ["fld", "v1"]])
            else:
                pool.append(edit(draw, base))
        else:
            # two operands built around one shared object: f(r, r) and f(r, r') with r' equal to / different from r
            if sh == () and not free and G.vars:
                kk = draw(st.integers(0, len(G.vars) - 1))
                if tuple(G.var_shapes[kk]) == ():
                    r1 = ["var", kk]
                    r2 = G.vars[kk]  # the same recipe, built as a separate object
                    r3 = edit(draw, G.vars[kk])
                    f1, f2 = draw(st.sampled_from([("sin", "cos"), ("cos", "sin"), ("exp", "tanh")]))
                    pool.append(["mul", ["fn", f1, r1], ["fn", f2, r1]])
                    pool.append(["mul", ["fn", f1, r2], ["fn", f2, r3]])
                    pool.append(["mul", ["fn", f1, r3], ["fn", f2, r2]])
                    continue
            pool.append(G.expr(sh, free, 2))
    return {"world": world, "vars": G.vars, "plain": plain, "pool": pool[:6], "perm_seed": draw(st.integers(0, 10**6))}


def strategy(tier):
    return cases(tier)


def sgn(x):
    return (x > 0) - (x < 0)


def alpha_key(e):
    """structure of e up to the numbering of indices and labels (own traversal)"""
    from ufl.classes import FixedIndex, Label, MultiIndex

    out = []
    stack = [e]
    while stack:
        n = stack.pop()
        if isinstance(n, MultiIndex):
            out.append(("MI",) + tuple(("F", int(i)) if isinstance(i, FixedIndex) else ("I",) for i in n))
        elif isinstance(n, Label):
            out.append(("L",))
        elif n._ufl_is_terminal_:
            out.append((type(n).__name__, repr(n)))
        else:
            out.append((type(n).__name__, len(n.ufl_operands)))
            stack.extend(reversed(n.ufl_operands))
    return tuple(out)


def check_case(case):
    import random

    import ufl
    from ufl.sorting import cmp_expr, sorted_expr

    b = SharedBuilder(case["world"], case.get("vars", ()), case.get("plain", ()))
    es = []
    for r in case["pool"]:
        try:
            e = ufl.as_ufl(b.build(r))
        except RecursionError:
            raise
        except Exception as ex:
            continue
        es.append(e)
    if len(es) < 3:
        raise Discard("pool too small after construction")
    # keep one type (construction-time folding may change the shape of a member, e.g. to a scalar zero)
    t0 = (es[0].ufl_shape, es[0].ufl_free_indices)
    es = [e for e in es if (e.ufl_shape, e.ufl_free_indices) == t0]
    if len(es) < 3:
        raise Discard("pool too small after construction")
    n = len(es)
    C = [[cmp_expr(es[i], es[j]) for j in range(n)] for i in range(n)]
    ties = 0
    decided = 0
    for i in range(n):
        if C[i][i] != 0:
            raise Violation("cmp_expr(a, a) != 0", {"kind": "reflexive"})
        for j in range(n):
            if sgn(C[i][j]) != -sgn(C[j][i]):
                raise Violation(f"cmp_expr is not antisymmetric: cmp(a,b)={C[i][j]}, cmp(b,a)={C[j][i]} for a={str(es[i])[:80]}, b={str(es[j])[:80]}",
                                {"kind": "antisymmetry"})
            if es[i] == es[j] and C[i][j] != 0:
                raise Violation("a == b but cmp_expr(a, b) != 0", {"kind": "eq-vs-cmp"})
            if i < j and C[i][j] == 0 and not (es[i] == es[j]):
                ties += 1
                if alpha_key(es[i]) != alpha_key(es[j]):
                    raise Violation(f"operands that differ in more than index/label numbers compare as equal: {str(es[i])[:80]} vs {str(es[j])[:80]}",
                                    {"kind": "tie-of-distinguishable"})
    for i, j, k in itertools.product(range(n), repeat=3):
        if C[i][j] <= 0 and C[j][k] <= 0 and C[i][k] > 0:
            raise Violation(f"cmp_expr is not transitive on ({str(es[i])[:60]}, {str(es[j])[:60]}, {str(es[k])[:60]})", {"kind": "transitivity"})
    # sorted_expr: permutation invariant up to ties
    rnd = random.Random(case["perm_seed"])
    base = sorted_expr(list(es))
    perms = list(itertools.permutations(range(n)))
    rnd.shuffle(perms)
    for perm in perms[:24]:
        s2 = sorted_expr([es[k] for k in perm])
        for x, y in zip(base, s2):
            if cmp_expr(x, y) != 0:
                raise Violation("sorted_expr depends on the order of its input beyond ties", {"kind": "sorted-expr"})
    for x, y in zip(base, base[1:]):
        if cmp_expr(x, y) > 0:
            raise Violation("sorted_expr result is not ordered", {"kind": "sorted-expr-order"})
    # commutative constructors
    for i in range(n):
        for j in range(i + 1, n):
            a, bb = es[i], es[j]
            if C[i][j] == 0:
                continue
            decided += 1
            try:
                s1, s2 = a + bb, bb + a
            except Exception:
                s1 = s2 = None
            if s1 is not None and not (s1 == s2):
                raise Violation(f"a + b != b + a for a={str(a)[:80]}, b={str(bb)[:80]}", {"kind": "sum"})
            if a.ufl_shape == () or bb.ufl_shape == ():
                try:
                    p1, p2 = a * bb, bb * a
                except Exception:
                    p1 = p2 = None
                if p1 is not None and not (p1 == p2):
                    raise Violation(f"a * b != b * a for a={str(a)[:80]}, b={str(bb)[:80]}", {"kind": "product"})
            if not a.ufl_free_indices and a.ufl_shape != ():
                # (for scalars inner(a, b) is built as the product a*conj(b), which carries no ordering decision)
                try:
                    i1, i2 = ufl.inner(bb, a), ufl.conj(ufl.inner(a, bb))
                except Exception:
                    i1 = i2 = None
                if i1 is not None and not (i1 == i2):
                    raise Violation(f"inner(b, a) != conj(inner(a, b)) for a={str(a)[:80]}, b={str(bb)[:80]}", {"kind": "inner"})
    labels = ["pool"] + (["has-ties"] if ties else [])
    return {"nontrivial": decided >= 2, "labels": labels}

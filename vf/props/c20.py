"""C20 Type dispatch stays valid when new expression types are registered later.

The type registry is process-global and append-only, so every generated history is executed step by step in a forked
child of the (warm, pristine) worker process and its observations are piped back.  A history is a list of

  ["register", kind]            define a new Expr subclass through @ufl_type (Operator or Terminal; unique names)
  ["use", alg]                  instantiate / run algorithm `alg` on an expression of old types only
  ["apply", alg, target]        run algorithm `alg` on target "old" or on an instance of the k-th registered type

with alg drawn from freshly defined MultiFunction / Transformer / DAGTraverser subclasses (string-building handlers,
several handler tables) and from the shipped algorithms that have a catch-all rule.  Oracle (differential): the
observation (result string or exception class) of every "apply" step must equal the observation of the same step in
the history with every "register" moved to the front -- i.e. results never depend on whether an algorithm class was
used before a type was registered -- and no apply on a registered type may fail with IndexError/KeyError.
"""

import json
import os
import sys
import traceback

from hypothesis import strategies as st

from vf.common import Discard, Violation

LEVEL = "exploration"
RULE = (
    "Hypothesis: histories of 3-12 operations over register(kind in Operator, Operator-with-two-operands, Terminal), "
    "use(alg), apply(alg, old | new type k), alg in 3 generated MultiFunction tables, 2 generated Transformer classes, "
    "a generated DAGTraverser and 9 shipped algorithms with catch-all handlers (apply_algebra_lowering, "
    "remove_complex_nodes, renumber_indices, replace, remove_component_tensors, estimate_total_polynomial_degree, "
    "check_integrand_arity, apply_derivatives, expand_indices). Each history and its registrations-first permutation "
    "run in forked children. non-trivial = some algorithm class is used before a registration and applied to the new "
    "type afterwards; distinct = distinct history."
)
ASSUMPTIONS = ["fork() isolates the global type registry per history; the parent never registers a type"]
BUDGET = {"quick": {"examples": 1200, "seconds": 75}, "thorough": {"examples": 50000, "seconds": 1500}}
LABEL_FLOORS = {"quick": {"used-before-registration": 300, "isolated": 60}}
CASE_TIMEOUT = {"quick": 30, "thorough": 60}

KINDS = ["op1", "op2", "term", "sub"]
ALGS = ["mf0", "mf0b", "mf1", "mf2", "tr0", "tr1", "dt0", "lowering", "rcn", "renumber", "replace", "rct", "degree", "arity",
        "derivatives", "expand_indices"]


@st.composite
def cases(draw, tier):
    n = draw(st.integers(3, 12))
    hist = []
    nreg = 0
    for _ in range(n):
        k = draw(st.sampled_from(["register", "use", "use", "apply", "apply", "apply", "rule"]))
        if k == "rule":
            if nreg == 0:
                continue
            # register a specific rule for the k-th late type in the generated DAGTraverser class
            hist.append(["rule", draw(st.integers(0, nreg - 1))])
            if draw(st.booleans()):
                hist.append(["apply", "dt0", hist[-1][1]])
            continue
        if k == "register" and nreg < 3:
            hist.append(["register", draw(st.sampled_from(KINDS))])
            nreg += 1
        elif k == "use":
            hist.append(["use", draw(st.sampled_from(ALGS))])
        else:
            tgt = "old" if nreg == 0 or draw(st.integers(0, 3)) == 0 else draw(st.integers(0, nreg - 1))
            hist.append(["apply", draw(st.sampled_from(ALGS)), tgt])
    if nreg == 0:
        hist.insert(draw(st.integers(0, len(hist))), ["register", draw(st.sampled_from(KINDS))])
        hist.append(["apply", draw(st.sampled_from(ALGS)), 0])
        nreg = 1
    if draw(st.integers(0, 2)) > 0:
        # the pattern the property is about: an algorithm used before a registration and applied to the new type after it
        a = draw(st.sampled_from(ALGS))
        r = draw(st.integers(0, nreg - 1))
        pos_r = [k for k, s_ in enumerate(hist) if s_[0] == "register"][r]
        hist.insert(draw(st.integers(0, pos_r)), ["use", a])
        hist.append(["apply", a, r])
    # most histories run inside the worker process (fresh algorithm classes and uniquely named types per history; the
    # shipped algorithm classes are then always "used before"); one in six runs in forked children of the pristine
    # worker, where the shipped classes are first used inside the history
    return {"history": hist, "isolated": draw(st.integers(0, 5)) == 0}


def strategy(tier):
    return cases(tier)


# ------------------------------------------------------------------------------------------- child side
_STATE = {}


def warmup():
    """Build the old-type objects and import every algorithm in the parent (never registers a type)."""
    import ufl
    import ufl.algorithms  # noqa: F401

    from vf.elements import make_element, make_mesh

    mesh = make_mesh("triangle", 2)
    V = ufl.FunctionSpace(mesh, make_element(["P", 2, []], "triangle"))
    W = ufl.FunctionSpace(mesh, make_element(["P", 1, [2]], "triangle"))
    f, g, w = ufl.Coefficient(V), ufl.Coefficient(V), ufl.Coefficient(W)
    i = ufl.Index()
    old = ufl.sin(f) * 2 + f * g + w[i] * w[i] + ufl.conj(g) + ufl.inner(w, ufl.grad(f))
    _STATE.update(mesh=mesh, f=f, g=g, w=w, old=old)


def _define_algorithms():
    from functools import singledispatchmethod

    from ufl.algorithms.transformer import Transformer
    from ufl.classes import Expr
    from ufl.corealg.dag_traverser import DAGTraverser
    from ufl.corealg.map_dag import map_expr_dag
    from ufl.corealg.multifunction import MultiFunction

    def post(hn):
        def h(self, o, *ops):
            return f"{hn}({','.join(ops)})"
        return h

    def cut(hn):
        def h(self, o):
            return f"{hn}[{type(o).__name__}]"
        return h

    tables = {
        "mf0": {"expr": "post", "terminal": "cut"},
        "mf0b": {"expr": "post", "terminal": "cut"},  # a different class implementing the same handlers
        "mf1": {"expr": "post", "operator": "post", "terminal": "post", "sum": "post", "coefficient": "cut", "math_function": "cut"},
        "mf2": {"ufl_type": "post", "product": "post", "form_argument": "cut"},
    }
    algs = {"_tables": tables}
    for name, tab in tables.items():
        cls = type("Generated_" + name, (MultiFunction,), {hn: (cut(hn) if k == "cut" else post(hn)) for hn, k in tab.items()})
        algs[name] = (lambda e, cls=cls: map_expr_dag(cls(), e))

    class TR0(Transformer):
        expr = Transformer.reuse_if_untouched
        terminal = Transformer.reuse

    class TR1(Transformer):
        expr = Transformer.always_reconstruct
        terminal = Transformer.reuse
        variable = Transformer.reuse_variable

    algs["tr0"] = lambda e: str(TR0().visit(e))
    algs["tr1"] = lambda e: str(TR1().visit(e))

    class DT0(DAGTraverser):
        @singledispatchmethod
        def process(self, o, **kw):
            return super().process(o, **kw)

    def any_rule(self, o):
        return f"Expr:{type(o).__name__}({','.join(self(op) for op in o.ufl_operands)})"

    DT0.process.register(Expr)(any_rule)
    algs["dt0"] = lambda e: DT0()(e)
    algs["_DT0"] = DT0

    from ufl.algorithms import expand_indices
    from ufl.algorithms.apply_algebra_lowering import apply_algebra_lowering
    from ufl.algorithms.apply_derivatives import apply_derivatives
    from ufl.algorithms.check_arities import check_integrand_arity
    from ufl.algorithms.estimate_degrees import estimate_total_polynomial_degree
    from ufl.algorithms.remove_complex_nodes import remove_complex_nodes
    from ufl.algorithms.remove_component_tensors import remove_component_tensors
    from ufl.algorithms.renumbering import renumber_indices
    from ufl.algorithms.replace import replace

    algs["lowering"] = lambda e: str(apply_algebra_lowering(e))
    algs["rcn"] = lambda e: str(remove_complex_nodes(e))
    algs["renumber"] = lambda e: str(renumber_indices(e))
    algs["replace"] = lambda e: str(replace(e, {_STATE["f"]: _STATE["g"]}))
    algs["rct"] = lambda e: str(remove_component_tensors(e))
    algs["degree"] = lambda e: str(estimate_total_polynomial_degree(e))
    algs["arity"] = lambda e: str(check_integrand_arity(e, ()))
    algs["derivatives"] = lambda e: str(apply_derivatives(apply_algebra_lowering(e)))
    algs["expand_indices"] = lambda e: str(expand_indices(apply_derivatives(apply_algebra_lowering(e))))
    return algs


_COUNTER = [0]


def _register(kind, k):
    _COUNTER[0] += 1
    k = f"{k}x{_COUNTER[0]}"
    from ufl.core.operator import Operator
    from ufl.core.terminal import Terminal
    from ufl.core.ufl_type import ufl_type

    if kind == "op1":
        def init(self, a):
            Operator.__init__(self, (a,))

        cls = ufl_type(num_ops=1, inherit_shape_from_operand=0, inherit_indices_from_operand=0)(
            type(f"LateUnary{k}", (Operator,), {"__slots__": (), "__init__": init,
                                               "__str__": lambda self: f"late{k}({self.ufl_operands[0]})"}))
        return cls, (lambda: cls(_STATE["old"]))
    if kind == "op2":
        def init2(self, a, b):
            Operator.__init__(self, (a, b))

        cls = ufl_type(num_ops=2, inherit_shape_from_operand=0, inherit_indices_from_operand=0)(
            type(f"LateBinary{k}", (Operator,), {"__slots__": (), "__init__": init2,
                                                "__str__": lambda self: f"late{k}({self.ufl_operands[0]}, {self.ufl_operands[1]})"}))
        return cls, (lambda: cls(_STATE["old"], _STATE["g"] * 3))

    if kind == "sub":
        # an external subclass of a ufl type *without* the decorator (the dolfinx Function(Coefficient) pattern): it
        # shares the type code of its base class
        import ufl

        cls = type(f"LateFunction{k}", (ufl.Coefficient,), {})
        V = _STATE["f"].ufl_function_space()
        return cls, (lambda: ufl.sin(cls(V)) + _STATE["f"] * cls(V))

    def tinit(self):
        Terminal.__init__(self)

    cls = ufl_type()(type(f"LateTerminal{k}", (Terminal,), {
        "__slots__": (), "__init__": tinit, "ufl_shape": (), "__str__": lambda self: f"lateterm{k}",
        "__repr__": lambda self: f"LateTerminal{k}()", "ufl_domains": lambda self: (),
        "_ufl_signature_data_": lambda self, renumbering: f"LateTerminal{k}()",
        "is_cellwise_constant": lambda self: False}))
    return cls, (lambda: cls() * _STATE["old"] + cls())


def _canon(text):
    """observation strings up to the numbering of Index objects created while running the algorithm"""
    import re

    seen = {}

    def sub(m):
        return seen.setdefault(m.group(1) or m.group(2), f"i#{len(seen)}")

    text = re.sub(r"i_(?:\{(\d+)\}|(\d+))", sub, str(text))
    seen_w = {}
    text = re.sub(r"w_(?:\{(\d+)\}|(\d+))", lambda m: seen_w.setdefault(m.group(1) or m.group(2), f"w#{len(seen_w)}"), text)
    return re.sub(r"x\d+", "x", text)[:2000]  # (unique suffixes of the late type names)


def _expected(alg, algs, target, dt_rules):
    """what the *generated* algorithms must return (their semantics are known): nearest-ancestor dispatch"""
    from vf.props.c19 import tree_apply

    if alg in algs["_tables"]:
        r = tree_apply(target, algs["_tables"][alg])
        return None if isinstance(r, tuple) else r
    if alg in ("tr0", "tr1"):
        return str(target)
    if alg == "dt0":
        def ref(n):
            c = next((c for c in type(n).__mro__ if c in dt_rules), None)
            if c is not None:
                return f"Rule:{c.__name__}[{type(n).__name__}]"
            return f"Expr:{type(n).__name__}({','.join(ref(o) for o in n.ufl_operands)})"
        return ref(target)
    return None


def run_history(history):
    """executed in the child (or in-process): returns the list of observations, one per step; for the generated
    algorithms an observation carries the expected result as third entry"""
    algs = _define_algorithms()
    makers = []
    classes = []
    dt_rules = set()
    obs = []
    for step in history:
        try:
            if step[0] == "register":
                cls, mk = _register(step[1], len(makers))
                makers.append(mk)
                classes.append(cls)
                obs.append(["registered", cls.__name__])
            elif step[0] == "rule":
                cls = classes[step[1]]

                def make_rule(c):
                    def rule(self, o):
                        return f"Rule:{c.__name__}[{type(o).__name__}]"
                    return rule

                algs["_DT0"].process.register(cls)(make_rule(cls))
                dt_rules.add(cls)
                obs.append(["rule", cls.__name__])
            else:
                target = _STATE["old"] if (step[0] == "use" or step[2] == "old") else makers[step[2]]()
                r = algs[step[1]](target)
                exp = _expected(step[1], algs, target, dt_rules)
                obs.append(["ok", _canon(r)] + ([_canon(exp)] if exp is not None else []))
        except BaseException as ex:  # noqa: B902
            tb = traceback.extract_tb(ex.__traceback__)
            where = ""
            for fr in reversed(tb):
                if "/ufl/" in fr.filename:
                    where = fr.filename.split("/ufl/")[-1] + ":" + fr.name
                    break
            obs.append(["exc", type(ex).__name__, where, str(ex)[:200]])
    return obs


def in_child(history):
    r, w = os.pipe()
    pid = os.fork()
    if pid == 0:
        try:
            os.close(r)
            import signal

            signal.alarm(0)
            out = json.dumps(run_history(history))
            with os.fdopen(w, "w") as f:
                f.write(out)
        except BaseException:  # noqa: B902
            try:
                os.write(w, json.dumps({"child-error": traceback.format_exc()[-1500:]}).encode())
            except Exception:
                pass
        finally:
            os._exit(0)
    os.close(w)
    with os.fdopen(r) as f:
        data = f.read()
    os.waitpid(pid, 0)
    if not data:
        raise RuntimeError("child returned nothing")
    out = json.loads(data)
    if isinstance(out, dict):
        raise RuntimeError("child failed: " + out.get("child-error", ""))
    return out


def front_loaded(history):
    """registrations first (same relative order), everything else in the original order; also returns for every
    original step its position in the permuted history"""
    regs = [k for k, s in enumerate(history) if s[0] == "register"]
    rest = [k for k, s in enumerate(history) if s[0] != "register"]  # ("rule" steps keep their place)
    order = regs + rest
    return [history[k] for k in order], {k: p for p, k in enumerate(order)}


def check_case(case):
    if not _STATE:
        warmup()
    hist = case["history"]
    perm, pos = front_loaded(hist)
    if case.get("isolated"):
        obs = in_child(hist)
        ref = in_child(perm)
    else:
        obs = run_history(hist)
        ref = run_history(perm)
    used_before = False
    used = set()
    nreg = 0
    for k, step in enumerate(hist):
        if step[0] == "register":
            nreg += 1
            continue
        if step[0] == "apply" and step[2] != "old" and step[1] in used:
            used_before = True
        used.add(step[1])
    # an algorithm counts as "used before the registration" only if the use precedes the registration of that target
    used_before = False
    seen_before_reg = {}
    cur_used = set()
    regidx = -1
    for step in hist:
        if step[0] == "register":
            regidx += 1
            seen_before_reg[regidx] = set(cur_used)
        else:
            if step[0] == "apply" and step[2] != "old" and step[1] in seen_before_reg.get(step[2], set()):
                used_before = True
            cur_used.add(step[1])
    for k, step in enumerate(hist):
        if step[0] in ("register", "rule"):
            continue
        a, b = obs[k], ref[pos[k]]
        if step[0] == "apply" and step[2] != "old":
            for o, which in ((a, "interleaved"), (b, "registrations-first")):
                if o[0] == "exc" and o[1] in ("IndexError", "KeyError"):
                    raise Violation(f"step {k} {step}: {which} history: dispatch failed with {o[1]} at {o[2]}: {o[3]}",
                                    {"kind": "dispatch-" + o[1], "alg": step[1]})
        for o, which in ((a, "interleaved"), (b, "registrations-first")):
            if o[0] == "ok" and len(o) > 2 and o[1] != o[2]:
                raise Violation(f"step {k} {step}: {which} history: generated algorithm returned {o[1][:140]} but nearest-ancestor "
                                f"dispatch gives {o[2][:140]}", {"kind": "wrong-dispatch", "alg": step[1] if len(step) > 1 else ""})
        if a[:2] != b[:2]:
            raise Violation(f"step {k} {step}: observation depends on the registration order: {str(a)[:160]} vs {str(b)[:160]}",
                            {"kind": "order-dependent", "alg": step[1]})
    labels = (["used-before-registration"] if used_before else ["fresh-only"]) + (["isolated"] if case.get("isolated") else ["in-process"])
    return {"nontrivial": used_before, "labels": labels}

"""C15 Integral grouping preserves what is integrated on each subdomain.

Forms with 1-8 integrals (ids int / tuple / everywhere, 1-3 integral types, 1-2 meshes, metadata from a pool of
distinct-but-similar values) go through group_form_integrals (both append options) and build_integral_data.  A model
computed from the *input form's* integrals by the rule of the statement,

   (mesh, type, subdomain s, metadata class M, stack of unapplied coordinate derivatives)  ->  sum of the integrands of the input integrals that apply to s and
   carry metadata M  (+ the 'everywhere' integrals with metadata M when they are appended; 'otherwise' = the
   'everywhere' integrals),

with metadata classes decided by exact comparison (== per key, numpy.array_equal for arrays), is compared numerically
(reference interpreter, random cell) with the grouped form: per key the values agree; every output integral's metadata
equals the metadata of one of its sources; the ids of an output integral are unique; build_integral_data lists every
integral under exactly its (mesh, type, ids).
"""

import numpy as np
from hypothesis import strategies as st

from vf.build import Builder
from vf.common import Discard, Violation
from vf.forms import LinGen, build_form, decode_md
from vf.gen import Gen, Profile, worlds
from vf.interp import Interp, close, derivative_depth
from vf.props.valuecommon import warmup  # noqa: F401
from vf.props.valuecommon import Guard, exc_bucket, make_env, rel_err

LEVEL = "exploration"
RULE = (
    "Hypothesis: forms of 1-8 integrals over dx/ds/dS-free types (dx, ds) on one or two meshes, subdomain ids drawn from "
    "everywhere / small ints / tuples of distinct ints, metadata drawn from a pool that contains equal, distinct and "
    "distinct-but-similar values (floats differing in the 13th digit, nested dicts/lists, numpy arrays of 3..3000 entries "
    "differing in one middle or last entry or in the 9th digit), integrands from the grammar (some repeated so that "
    "integrals with a common integrand are merged into id tuples), in a third of the cases wrapped in 0-2 unapplied "
    "shape derivatives (CoordinateDerivative) in directions V1/V2/V3; both values of do_append_everywhere_integrals. "
    "non-trivial = at least two input integrals apply to one (mesh, type, subdomain) and at least two different metadata "
    "values occur; distinct = distinct (form, option)."
)
ASSUMPTIONS = ["metadata classes by exact comparison; the form's own integrals (after construction) define the input",
               "unapplied shape derivatives are compared as (inner integrand value, multiset of derivative operands): the order of a "
               "stack of Gateaux derivatives is not significant"]
BUDGET = {"quick": {"examples": 2000, "seconds": 70}, "thorough": {"examples": 60000, "seconds": 1500}}
LABEL_FLOORS = {"quick": {"two-derivative-stacks-on-one-subdomain": 60, "similar-metadata": 400, "two-meshes": 300, "everywhere+numbered": 500}}
CASE_TIMEOUT = {"quick": 20, "thorough": 60}

OPS = {"arith", "math", "index", "tensor", "compound", "deriv", "pow", "abs", "var"}
PROF = Profile(ops=OPS, leaves={"coef", "const", "lit", "x", "geo", "eye"}, max_rank=2, elements="lagrange", manifolds=True,
               args=((0, "any"),))
# stacks of unapplied shape derivatives (directions by name; equal names are the same coefficient)
CDS = [[], [], [], ["V1"], ["V1"], ["V2"], ["V1", "V2"], ["V2", "V1"], ["V1", "V1"], ["V3"]]
SIDS = [None, None, None, 0, 1, 2, 3, [1, 2], [0, 3], [2, 1, 5], [3, 0]]


def md_pool(draw):
    """a small pool of metadata dicts with equal / different / nearly equal members"""
    n = draw(st.sampled_from([3, 40, 1500, 3000]))
    seed = draw(st.integers(0, 50))
    pos = draw(st.sampled_from([0, n // 2, n - 1]))
    delta = draw(st.sampled_from([0.5, 1e-3, 3e-9]))
    pools = [
        [{}, {}, {"quadrature_degree": 2}, {"quadrature_degree": 3}],
        [{"quadrature_degree": 2}, {"quadrature_degree": 2}, {"quadrature_degree": 2, "scheme": "default"}, {}],
        [{"tol": 0.1234567890123}, {"tol": 0.1234567890124}, {"tol": 0.1234567890123}],
        [{"o": {"a": 1, "b": [1, 2, 3]}}, {"o": {"a": 1, "b": [1, 2, 4]}}, {"o": {"a": 1, "b": [1, 2, 3]}}],
        [{"w": {"__array__": [n, seed, None, 0]}}, {"w": {"__array__": [n, seed, pos, delta]}}, {"w": {"__array__": [n, seed, None, 0]}}, {}],
        [{"__ordered__": [["quadrature_degree", 2], ["max_terms", 4]]}, {"__ordered__": [["max_terms", 2], ["quadrature_degree", 4]]},
         {"__ordered__": [["max_terms", 4], ["quadrature_degree", 2]]}],
        [{"__ordered__": [["scheme", "a"], ["rule", "b"]]}, {"__ordered__": [["rule", "a"], ["scheme", "b"]]}, {}],
        [{"w": {"__array__": [n, seed, None, 0]}, "quadrature_degree": 2}, {"w": {"__array__": [n, seed, pos, delta]}, "quadrature_degree": 2}],
    ]
    return draw(st.sampled_from(pools))


@st.composite
def cases(draw, tier):
    world = draw(worlds(PROF))
    nmesh = draw(st.sampled_from([1, 1, 2]))
    world["nmesh"] = nmesh
    if not draw(st.booleans()):
        world["fields"].pop("a0", None)
    G = Gen(draw, world, PROF)
    L = LinGen(G, cond=False)
    argnames = ["a0"] if "a0" in world["fields"] else []
    pool = md_pool(draw)
    exprs = [L.term(argnames, draw(st.integers(1, 2))) for _ in range(draw(st.integers(1, 4)))]
    integrals = []
    shape_derivs = draw(st.integers(0, 2)) == 0
    for _ in range(draw(st.integers(1, 8))):
        integrals.append({"itype": draw(st.sampled_from(["dx", "dx", "dx", "ds"])), "sid": draw(st.sampled_from(SIDS)),
                          "md": draw(st.sampled_from(pool)), "mesh": draw(st.integers(0, nmesh - 1)),
                          "expr": draw(st.sampled_from(exprs)), "cd": draw(st.sampled_from(CDS)) if shape_derivs else []})
    return {"world": world, "vars": G.vars, "integrals": integrals, "append": draw(st.booleans()),
            "similar": any("__array__" in str(m) or "tol" in m for m in pool), "env_seed": draw(st.integers(0, 10**6))}


def strategy(tier):
    return cases(tier)


def md_equal(a, b):
    if isinstance(a, dict) and isinstance(b, dict):
        return a.keys() == b.keys() and all(md_equal(a[k], b[k]) for k in a)
    if isinstance(a, (list, tuple)) and isinstance(b, (list, tuple)):
        return len(a) == len(b) and all(md_equal(x, y) for x, y in zip(a, b))
    if isinstance(a, np.ndarray) or isinstance(b, np.ndarray):
        return isinstance(a, np.ndarray) and isinstance(b, np.ndarray) and a.shape == b.shape and bool(np.array_equal(a, b))
    return type(a) is type(b) and a == b


def md_class(md, classes):
    for k, c in enumerate(classes):
        if md_equal(md, c):
            return k
    classes.append(md)
    return len(classes) - 1


def strip_cd(integrand):
    """(integrand without its outer CoordinateDerivative nodes, the multiset of their (coordinate, direction, extra)
    operands).  Gateaux derivatives commute, so the order of the stack is not part of the key."""
    from ufl.classes import CoordinateDerivative

    stack = []
    while isinstance(integrand, CoordinateDerivative):
        stack.append(tuple(repr(o) for o in integrand.ufl_operands[1:]))
        integrand = integrand.ufl_operands[0]
    return integrand, tuple(sorted(stack))


def ids_of(itg):
    sid = itg.subdomain_id()
    if isinstance(sid, tuple):
        return list(sid)
    return [sid]


def check_case(case):
    import ufl
    from ufl.algorithms.domain_analysis import build_integral_data, group_form_integrals

    b = Builder(case["world"], case.get("vars", ()))
    try:
        form, _ = build_form(b, case["integrals"])
    except RecursionError:
        raise
    except Exception as ex:
        raise Discard("build:" + type(ex).__name__)
    if form is None or not form.integrals():
        raise Discard("empty form")
    append = case["append"]
    try:
        out = group_form_integrals(form, form.ufl_domains(), do_append_everywhere_integrals=append)
        idata = build_integral_data(out.integrals())
    except RecursionError:
        raise
    except Exception as ex:
        raise Violation(f"grouping raised {type(ex).__name__}: {str(ex)[:300]}", {"kind": "raised:" + exc_bucket(ex)})
    inputs = list(form.integrals())
    outputs = list(out.integrals())
    classes = []
    order = max([derivative_depth(strip_cd(i.integrand())[0]) for i in inputs + outputs] + [0])
    if order > 3:
        raise Discard("derivative order > 3")
    # ---- structural checks
    for o in outputs:
        ids = ids_of(o)
        if len(ids) != len(set(ids)):
            raise Violation(f"an output integral lists a subdomain id twice: {ids}", {"kind": "duplicate-id"})
        if "everywhere" in ids:
            raise Violation("'everywhere' survives grouping", {"kind": "everywhere-left"})
        srcs = [i for i in inputs if i.ufl_domain() == o.ufl_domain() and i.integral_type() == o.integral_type()
                and (i.subdomain_id() == "everywhere" or set(ids_of(i)) & set(ids))]
        if not any(md_equal(o.metadata(), i.metadata()) for i in srcs):
            raise Violation("an output integral carries metadata that none of its sources has", {"kind": "foreign-metadata"})
    listed = {}
    for d in idata:
        for itg in d.integrals:
            if (itg.ufl_domain(), itg.integral_type(), itg.subdomain_id()) != (d.domain, d.integral_type, d.subdomain_id):
                raise Violation("build_integral_data files an integral under a different (mesh, type, ids)", {"kind": "integral-data-key"})
            listed[id(itg)] = listed.get(id(itg), 0) + 1
    if sorted(listed) != sorted(id(o) for o in outputs) or any(v != 1 for v in listed.values()):
        raise Violation("build_integral_data does not list every grouped integral exactly once", {"kind": "integral-data-cover"})
    # ---- values
    two_apply = False
    two_stacks = False
    for rep in range(2):
        vals_in = {}
        vals_out = {}

        def value(itg, cache):
            k = id(itg)
            if k not in cache:
                env = make_env(case, rep, facet=(itg.integral_type() == "exterior_facet"))
                cache[k] = Guard(Interp(env, order=order)).value(strip_cd(itg.integrand())[0])
            return cache[k]

        keys = set()
        for i in inputs:
            for s in ids_of(i):
                keys.add((i.ufl_domain(), i.integral_type(), s))
        for o in outputs:
            for s in ids_of(o):
                keys.add((o.ufl_domain(), o.integral_type(), s))
        for (dom, it, s) in keys:
            if s == "everywhere":
                continue
            ev = [i for i in inputs if i.ufl_domain() == dom and i.integral_type() == it and i.subdomain_id() == "everywhere"]
            ex = [i for i in inputs if i.ufl_domain() == dom and i.integral_type() == it and i.subdomain_id() != "everywhere" and s in ids_of(i)]
            outs = [o for o in outputs if o.ufl_domain() == dom and o.integral_type() == it and s in ids_of(o)]
            if s == "otherwise":
                src = ev
            else:
                src = ex + (ev if append else [])
                if not ex and not outs:
                    continue
            if len(src) >= 2:
                two_apply = True
            exp, got = {}, {}
            for i in src:
                c = (md_class(i.metadata(), classes), strip_cd(i.integrand())[1])
                exp[c] = exp.get(c, 0.0) + value(i, vals_in)
            for o in outs:
                c = (md_class(o.metadata(), classes), strip_cd(o.integrand())[1])
                got[c] = got.get(c, 0.0) + value(o, vals_out)
            if len({c[1] for c in exp if c[1]}) >= 2:
                two_stacks = True
            for c in set(exp) | set(got):
                a, g_ = exp.get(c, 0.0), got.get(c, 0.0)
                if not close(np.asarray(a), np.asarray(g_), rtol=1e-7, atol=1e-9):
                    raise Violation(f"{it} subdomain {s}, metadata class {c}: original {np.ravel(a)[:2]} vs grouped {np.ravel(g_)[:2]} "
                                    f"(rel err {rel_err(a, g_):.3g}); append={append}", {"kind": "value"})
    labels = []
    if case.get("similar"):
        labels.append("similar-metadata")
    if case["world"].get("nmesh", 1) > 1:
        labels.append("two-meshes")
    if any(i.subdomain_id() == "everywhere" for i in inputs) and any(i.subdomain_id() != "everywhere" for i in inputs):
        labels.append("everywhere+numbered")
    if two_stacks:
        labels.append("two-derivative-stacks-on-one-subdomain")
    return {"nontrivial": two_apply and (len(classes) >= 2 or two_stacks), "labels": labels}

"""C18 Estimated polynomial degree never underestimates the true degree.

Polynomial integrands are generated over form arguments whose every reference component is a dense random
polynomial of *exactly* its (sub-)element's degree.  The true total degree is decided numerically without any degree
rule: the integrand is sampled by the reference interpreter along a random line X(s) = Xc + s d through the
reference cell at Chebyshev nodes, and a polynomial of the *estimated* degree is fitted by least squares -- it
reproduces the samples to rounding error iff the estimate is not below the true degree along the line (which equals
the total degree for a generic direction).  Accidental cancellation only lowers the true degree, so it cannot raise a
false alarm.  Checked: estimate_total_polynomial_degree on the raw integrand and on the lowered / derivative-expanded
integrand, and the estimated_polynomial_degree that compute_form_data attaches (with and without integral scaling).
"""

import numpy as np
from hypothesis import strategies as st

from vf.build import Builder
from vf.common import Discard, Violation
from vf.forms import build_form
from vf.gen import Gen, Profile, TDIM, ops_in, worlds
from vf.interp import Env, Interp, derivative_depth
from vf.props.valuecommon import warmup  # noqa: F401
from vf.props.valuecommon import exc_bucket, make_env

LEVEL = "exploration"
RULE = (
    "Hypothesis: polynomial integrands (sums, products, integer powers <= 3, fixed and free indexing, list/component "
    "tensors, dot/inner/outer/det/cofac/dev/sym/skew/tr, grad/div/curl/dx up to order 2, x, cell-wise constant geometry, "
    "constants) over coefficients and arguments on Lagrange/DG P1-P3, RT/N1curl-like, Regge/HHJ-like, heterogeneous "
    "symmetric elements (scalar blocks; vector-valued Lagrange / RT blocks of different degree) and a mixed element of 2-4 sub-elements of different degree and shape whose fixed components "
    "are accessed; affine interval/triangle/tetrahedron incl. immersed cells. non-trivial = true degree >= 2 and the "
    "integrand accesses a component of a mixed/symmetric element or contains a derivative or a product of two fields; "
    "distinct = distinct recipe."
)
ASSUMPTIONS = [
    "every reference component of a form argument has exactly the degree of its sub-element (dense random coefficients)",
    "degree along a random line = total degree (probability one); least-squares fit in a Chebyshev basis, relative "
    "residual threshold 1e-7 where an under-estimate by one degree leaves a residual of order 1e-2",
]
BUDGET = {"quick": {"examples": 3000, "seconds": 75}, "thorough": {"examples": 100000, "seconds": 1500}}
LABEL_FLOORS = {"quick": {"symmetric-vector-blocks": 150, "mixed-component": 600, "symmetric": 100, "derivative": 500, "manifold": 400, "form-data": 500}}
CASE_TIMEOUT = {"quick": 20, "thorough": 60}

POLY = Profile(ops={"arith", "index", "tensor", "compound", "deriv", "ipow"}, leaves={"coef", "const", "lit", "x", "geo", "zero", "eye"},
               max_rank=2, elements="all", manifolds=True, weights={"sdiv": 0, "inv": 0})
MIXSUBS = [["P", 1, []], ["P", 2, []], ["P", 3, []], ["DG", 0, []], ["DG", 2, []], ["P", 1, "g"], ["P", 3, "g"], ["RT", 1], ["RT", 3],
           ["N1", 2], ["DGp", 2], ["P", 2, "gg"], ["Regge", 1], ["symP"]]
PDEG = 3


def phys_size(spec, g):
    k = spec[0]
    if k in ("P", "DG"):
        return int(np.prod(spec[2], dtype=int))
    if k in ("RT", "N1"):
        return g
    if k in ("Regge", "HHJ", "GLS", "sym"):
        return g * g
    return 1


@st.composite
def cases(draw, tier):
    world = draw(worlds(POLY))
    g = world["gdim"]
    subs = []
    for _ in range(draw(st.integers(2, 4))):
        sp = list(draw(st.sampled_from(MIXSUBS)))
        if sp == ["symP"]:
            n = g * (g + 1) // 2
            sp = ["sym", g, [["P", 1 + ((k + draw(st.integers(0, 2))) % 3), []] for k in range(n)]]
        if len(sp) > 2 and sp[2] == "g":
            sp[2] = [g]
        if len(sp) > 2 and sp[2] == "gg":
            sp[2] = [g, g]
        subs.append(sp)
    nq = sum(phys_size(s, g) for s in subs)
    world["fields"]["q0"] = dict(kind="coef", elem=["mixed", subs], shape=[nq])
    world["fields"]["q1"] = dict(kind="arg", elem=["mixed", subs], shape=[nq], number=0, part=None)
    # a symmetric element whose blocks are vector valued (value shape (g, g, g)), blocks of different degree
    nb = g * (g + 1) // 2
    blk = draw(st.sampled_from(["P", "P", "RT"]))
    world["fields"]["s0"] = dict(kind="coef", shape=[g, g, g], elem=[
        "sym", g, [(["P", 1 + ((k + draw(st.integers(0, 2))) % 3), [g]] if blk == "P" else ["RT", 1 + (k + draw(st.integers(0, 1))) % 2])
                   for k in range(nb)]])
    G = Gen(draw, world, POLY)
    terms = []
    for _ in range(draw(st.integers(1, 3))):
        k = draw(st.sampled_from(["mixcomp", "mixcomp", "symcomp", "symvec", "general", "general", "mixgrad"]))
        if k == "mixcomp":
            q = draw(st.sampled_from(["q0", "q1"]))
            t = ["index", ["fld", q], [draw(st.integers(0, nq - 1))]]
            if draw(st.booleans()):
                t = ["mul", t, ["index", ["fld", "q0"], [draw(st.integers(0, nq - 1))]]]
            if draw(st.booleans()):
                t = ["mul", t, G.expr((), (), 1)]
        elif k == "mixgrad":
            q = draw(st.sampled_from(["q0", "q1"]))
            t = ["index", ["grad", ["fld", q]], [draw(st.integers(0, nq - 1)), draw(st.integers(0, g - 1))]]
            if draw(st.booleans()):
                t = ["mul", t, ["index", ["fld", "q0"], [draw(st.integers(0, nq - 1))]]]
        elif k == "symvec":
            t = ["index", ["fld", "s0"], [draw(st.integers(0, g - 1)) for _ in range(3)]]
            if draw(st.booleans()):
                t = ["mul", t, G.expr((), (), 1)]
        elif k == "symcomp":
            t = ["index", ["fld", "m0"], [draw(st.integers(0, g - 1)), draw(st.integers(0, g - 1))]]
            if draw(st.booleans()):
                t = ["mul", t, G.expr((), (), 1)]
        else:
            t = G.expr((), (), draw(st.integers(1, 3)))
        terms.append(t)
    e = terms[0]
    for t in terms[1:]:
        e = [draw(st.sampled_from(["add", "add", "mul"])), e, t]
    return {"world": world, "expr": e, "vars": G.vars, "via_form": draw(st.booleans()), "scaling": draw(st.booleans()),
            "env_seed": draw(st.integers(0, 10**6))}


def strategy(tier):
    return cases(tier)


def degree_map(f):
    """per reference component: the degree of the sub-element that owns it"""
    def rec(el):
        subs = list(el.sub_elements)
        if not subs:
            d = el.embedded_superdegree
            return [d] * int(np.prod(el.reference_value_shape, dtype=int))
        out = []
        for se in subs:
            out += rec(se)
        return out

    return rec(f.ufl_element())


def _samples(case, e, order, rep, K):
    env0 = make_env(case, rep)
    rng = np.random.default_rng([int(case["env_seed"]), rep, 18])
    d = rng.normal(size=env0.geo.tdim)
    d = 0.45 * d / np.linalg.norm(d)
    s = np.cos(np.pi * (np.arange(K) + 0.5) / K)
    vals = []
    for sk in s:
        env = Env(env0.geo, env0.X + sk * d, facet=env0.facet, weight=env0.weight, seed=env0.seed, mode="poly", pdeg=PDEG)
        env.degree_of = degree_map
        I = Interp(env, order=order)
        with np.errstate(all="ignore"):
            v = I.value(e)
        vals.append(np.ravel(v))
    V = np.array(vals, dtype=float)  # (K, ncomp)
    if not np.all(np.isfinite(V)):
        raise Discard("illcond:nonfinite")
    return s, V


def _residual(s, V, deg):
    coef = np.polynomial.chebyshev.chebfit(s, V, int(deg))
    return float(np.max(np.abs(np.polynomial.chebyshev.chebval(s, coef).T - V)))


def underestimated(case, e, est, order):
    """True iff no polynomial of degree `est` reproduces e along a random line although some polynomial of degree <= 16
    does (decided on two lines).  Samples that no polynomial of degree <= 16 reproduces are rounding noise of a quantity
    that vanishes identically (e.g. the determinant of a rank-deficient Piola-mapped tensor on a manifold): inconclusive."""
    for rep in range(2):
        s, V = _samples(case, e, order, rep, int(est) + 9)
        scale = float(np.max(np.abs(V)))
        if scale < 1e-13:
            continue
        res = _residual(s, V, est)
        if res > 1e-7 * scale:
            if est >= 16:
                continue
            s2, V2 = _samples(case, e, order, rep, 27)
            scale2 = float(np.max(np.abs(V2)))
            if scale2 < 1e-13 or _residual(s2, V2, 16) > 1e-7 * scale2:
                continue  # not a polynomial to working precision
            return True, res / scale
    return False, 0.0


def true_degree(case, e, order, upto=16):
    for dgr in range(upto + 1):
        u, _ = underestimated(case, e, dgr, order)
        if not u:
            return dgr
    return upto + 1


def check_case(case):
    import ufl
    from ufl.algorithms import compute_form_data
    from ufl.algorithms.apply_algebra_lowering import apply_algebra_lowering
    from ufl.algorithms.apply_derivatives import apply_derivatives
    from ufl.algorithms.estimate_degrees import estimate_total_polynomial_degree

    b = Builder(case["world"], case.get("vars", ()))
    try:
        e = ufl.as_ufl(b.build(case["expr"]))
    except RecursionError:
        raise
    except Exception as ex:
        raise Discard("build:" + type(ex).__name__)
    if e.ufl_shape or e.ufl_free_indices:
        raise Discard("not scalar")
    order = derivative_depth(e)
    if order > 3:
        raise Discard("derivative order > 3")
    labels = []
    checks = []
    try:
        try:
            checks.append(("estimate_total_polynomial_degree(integrand)", estimate_total_polynomial_degree(e), e))
        except ValueError as ex:
            # compound tensor operators are explicitly not handled before preprocessing ("please apply
            # preprocessing before using this algorithm")
            if "Missing degree handler" not in str(ex):
                raise
            labels.append("raw-unsupported")
        low = apply_derivatives(apply_algebra_lowering(e))
        checks.append(("estimate_total_polynomial_degree(preprocessed integrand)", estimate_total_polynomial_degree(low), e))
    except RecursionError:
        raise
    except Exception as ex:
        raise Violation(f"degree estimation raised {type(ex).__name__}: {str(ex)[:300]}", {"kind": "raised:" + exc_bucket(ex)})
    if case["via_form"]:
        form = e * ufl.dx(b.mesh)
        if form.integrals():
            try:
                fd = compute_form_data(form, do_apply_integral_scaling=case["scaling"], do_apply_function_pullbacks=case["scaling"],
                                       do_apply_geometry_lowering=case["scaling"])
            except RecursionError:
                raise
            except BaseException as ex:
                if type(ex).__name__ in ("CaseTimeout", "StopRun", "KeyboardInterrupt"):
                    raise
                fd = None
            if fd is not None:
                degs = [itg.metadata().get("estimated_polynomial_degree") for idata in fd.integral_data for itg in idata.integrals]
                if degs:
                    # the integrals of one cell integral data sum to the original integrand (x scale factor, which
                    # is constant on affine cells): the largest attached degree must cover the true degree
                    checks.append(("compute_form_data estimated_polynomial_degree", max(degs), e))
                    labels.append("form-data")
    td = None
    for what, est, expr in checks:
        if isinstance(est, tuple):
            est = max(est)
        under, res = underestimated(case, expr, est, order)
        if under:
            td = true_degree(case, expr, order)
            if td > 16:
                # no polynomial of degree <= 16 reproduces the samples: the values are rounding noise of a quantity that
                # vanishes identically (e.g. det of a rank-deficient Piola-mapped tensor on a manifold) -- inconclusive
                raise Discard("illcond:not a polynomial to working precision")
            raise Violation(f"{what} = {est} but the integrand has degree {td} (fit residual {res:.2g})",
                            {"kind": "underestimate", "estimate": int(est), "true": int(td), "which": what.split('(')[0]})
    td = true_degree(case, e, order)
    ops = ops_in(case["expr"])
    w = case["world"]
    flat = str(case["expr"])
    if "'q0'" in flat or "'q1'" in flat:
        labels.append("mixed-component")
    if "'m0'" in flat and w["fields"]["m0"]["elem"][0] == "sym":
        labels.append("symmetric")
    if "'s0'" in flat:
        labels.append("symmetric-vector-blocks")
    if ops & {"grad", "divop", "curl", "nabla_grad", "nabla_div", "dx"}:
        labels.append("derivative")
    if w["gdim"] > TDIM[w["cell"]]:
        labels.append("manifold")
    interesting = bool(set(labels) & {"mixed-component", "symmetric", "derivative"}) or "mul" in ops
    return {"nontrivial": td >= 2 and interesting, "labels": labels + ["true-degree:%d" % min(td, 9)]}

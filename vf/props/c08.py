"""C08 Function pullbacks implement each element's declared push-forward.

Oracle: the harness' own push-forward table (DESIGN 7.2: identity, J r/detJ, K^T r, r/detJ, J r J^T/detJ^2,
K^T r K, K^T r J^T/detJ, row-wise on block shaped reference values, mixed = concatenation, symmetric = block
tensor) applied to a random reference value == value of apply_function_pullbacks(f) with ReferenceValue(f) := r,
and its shape == FunctionSpace.value_shape.  Second leg: grad(f) by jets == pulled-back, derivative-expanded form.
"""

import numpy as np
from hypothesis import strategies as st

from vf.common import Discard, Violation
from vf.interp import Env, Interp, close, derivative_depth, pushforward
from vf.props.valuecommon import Guard, check_acyclic, eval_output, exc_bucket, rel_err
from vf.refcell import Geometry, TDIM

LEVEL = "exploration"
RULE = (
    "Hypothesis: element specs drawn recursively (depth <= 3): every pull-back kind with scalar/vector/block-shaped "
    "reference values, mixed elements (heterogeneous, nested), symmetric elements whose sub-elements share a "
    "reference shape but may have different pull-backs/degrees; cells interval/triangle/tetrahedron with "
    "gdim in tdim..3 (immersed manifolds, both orientations); coefficient or argument; random reference values. "
    "non-trivial = the element contains at least one non-identity pull-back or is mixed/symmetric; distinct = "
    "distinct (element, cell, gdim)."
)
ASSUMPTIONS = ["push-forward conventions of DESIGN 7.2 (validated against flux/circulation identities in selftest)"]
BUDGET = {"quick": {"examples": 5000, "seconds": 60}, "thorough": {"examples": 150000, "seconds": 1200}}

KINDS = ["identity", "contravariant", "covariant", "l2", "double_contravariant", "double_covariant", "covariant_contravariant"]


@st.composite
def basic(draw, ref_shape_like=None):
    kind = draw(st.sampled_from(KINDS))
    lead = draw(st.sampled_from([[], [], [], [2], [3], [2, 2]]))
    deg = draw(st.integers(0 if kind in ("identity", "l2") else 1, 3))
    if kind == "identity" and draw(st.booleans()):
        return [draw(st.sampled_from(["P", "DG"])), max(deg, 1) if True else deg, lead]
    return ["piola", kind, lead, deg]


@st.composite
def element(draw, depth):
    if depth <= 0:
        return draw(basic())
    k = draw(st.sampled_from(["basic", "basic", "mixed", "mixed", "sym"]))
    if k == "basic":
        return draw(basic())
    if k == "mixed":
        n = draw(st.integers(1, 4))
        return ["mixed", [draw(element(depth - 1)) for _ in range(n)]]
    n = draw(st.sampled_from([2, 2, 3]))
    nsub = n * (n + 1) // 2
    # sub-elements with a common reference value shape, possibly different pull-backs
    fam = draw(st.sampled_from(["scalar", "vector", "tensor"]))
    choices = {"scalar": ["identity", "l2"], "vector": ["contravariant", "covariant"],
               "tensor": ["double_contravariant", "double_covariant", "covariant_contravariant"]}[fam]
    lead = draw(st.sampled_from([[], [], [2]]))
    subs = []
    for _ in range(nsub):
        kind = draw(st.sampled_from(choices))
        subs.append(["piola", kind, lead, draw(st.integers(1, 3))])
    return ["sym", n, subs]


@st.composite
def cases(draw, tier):
    cell = draw(st.sampled_from(["interval", "triangle", "tetrahedron"]))
    t = TDIM[cell]
    g = draw(st.integers(t, 3))
    el = draw(element(draw(st.integers(0, 3))))
    return {"cell": cell, "gdim": g, "elem": el, "arg": draw(st.booleans()), "leg": draw(st.sampled_from(["value", "value", "grad", "component"])),
            "env_seed": draw(st.integers(0, 10**6))}


def strategy(tier):
    return cases(tier)


def has_nontrivial(spec):
    if spec[0] in ("mixed", "sym"):
        return True
    return spec[0] == "piola" and spec[1] != "identity"


def check_case(case):
    import ufl
    from ufl.algorithms.apply_algebra_lowering import apply_algebra_lowering
    from ufl.algorithms.apply_derivatives import apply_derivatives
    from ufl.algorithms.apply_function_pullbacks import apply_function_pullbacks

    from vf.elements import make_element, make_mesh

    mesh = make_mesh(case["cell"], case["gdim"])
    try:
        el = make_element(case["elem"], case["cell"])
        V = ufl.FunctionSpace(mesh, el)
        f = ufl.Argument(V, 0) if case["arg"] else ufl.Coefficient(V)
        vshape = tuple(V.value_shape)
    except Exception as ex:
        raise Discard("build:" + type(ex).__name__)
    if len(vshape) > 4:
        raise Discard("rank > 4")
    leg = case["leg"]
    if leg == "grad" and len(vshape) > 2:
        leg = "value"
    rng = np.random.default_rng(case["env_seed"])
    if leg == "value":
        e = f
    elif leg == "component":
        if not vshape:
            e = f
        else:
            comp = tuple(int(rng.integers(0, n)) for n in vshape)
            e = f[comp]
    else:
        e = ufl.grad(f)
    try:
        if leg == "grad":
            low = apply_derivatives(apply_function_pullbacks(apply_derivatives(apply_algebra_lowering(e))))
        else:
            low = apply_function_pullbacks(e)
    except RecursionError:
        raise
    except Exception as ex:
        raise Violation(f"apply_function_pullbacks raised {type(ex).__name__}: {str(ex)[:200]}", {"kind": "raised:" + exc_bucket(ex)})
    check_acyclic(low, "output")
    if tuple(low.ufl_shape) != tuple(e.ufl_shape):
        raise Violation(f"pulled-back shape {low.ufl_shape} != {e.ufl_shape}", {"kind": "shape"})
    if tuple(f.ufl_shape) != vshape:
        raise Violation(f"f.ufl_shape {f.ufl_shape} != FunctionSpace.value_shape {vshape}", {"kind": "value-shape"})
    for rep in range(2):
        geo = Geometry.random(np.random.default_rng([case["env_seed"], rep]), case["cell"], case["gdim"])
        env = Env(geo, geo.random_cell_point(rng), seed=case["env_seed"] + rep)
        order = max(derivative_depth(e), derivative_depth(low))
        I = Interp(env, order=order)
        G = Guard(I, min_den=1e-9)
        if leg != "grad":
            r = rng.uniform(-1, 1, tuple(el.reference_value_shape))
            env.fixed["rv:" + repr(f)] = r
            exp = np.asarray(pushforward(el, r, geo))
            if exp.shape != vshape:
                # physical value shape of the oracle differs from ufl's: decide which one is right by the table
                raise Violation(f"FunctionSpace.value_shape {vshape} != push-forward shape {exp.shape}", {"kind": "value-shape"})
            if leg == "component" and vshape:
                exp = exp[comp]
        else:
            exp = G.value(e)
        got = eval_output(G, low)
        if not close(exp, got, rtol=1e-8, atol=1e-10):
            raise Violation(f"push-forward mismatch ({leg}): table {np.ravel(exp)[:4]} vs pulled-back expression {np.ravel(got)[:4]} "
                            f"(rel err {rel_err(exp, got):.3g})", {"kind": "value", "leg": leg})
    labels = ["leg:" + leg, "manifold" if case["gdim"] > TDIM[case["cell"]] else "flat", "top:" + case["elem"][0]]
    key = None
    return {"nontrivial": has_nontrivial(case["elem"]), "labels": labels}

"""C11 Forms with different compiled meaning never share a signature.

Two directions.
 equal => equal      the variant built from the objects of the original form (same meshes, spaces, coefficients, after
                     the original's signature was computed) and from fresh objects has one signature;
                     the same form recipe built twice (fresh meshes, spaces, coefficients, constants, indices, with
                     noise objects created in between so that all counters are shifted) has one signature.
 different => different   a generated form and a variant produced by ONE edit have different signatures.  A pair only
                     counts if it is provably different for a form compiler: either the edit is in data the compiler
                     reads verbatim (element family/degree/shape/mapping, cell, geometric dimension, integral type,
                     subdomain id, a metadata value of the same Python type incl. array entries) or it is an edit of the
                     integrand (literal, fixed index, operator, swapped operands of a non-commutative operator) for
                     which the reference interpreter finds different integrand values at random points.
"""

import copy

import numpy as np
from hypothesis import strategies as st

from vf.build import Builder
from vf.common import Discard, Violation
from vf.forms import LinGen, build_form, draw_sid
from vf.gen import Gen, Profile, worlds
from vf.interp import Interp, close, derivative_depth
from vf.props.valuecommon import warmup  # noqa: F401
from vf.props.valuecommon import Guard, make_env

LEVEL = "exploration"
RULE = (
    "Hypothesis: forms of 1-3 integrals (dx/ds, subdomain ids, metadata incl. floats, strings, nested dicts/lists and "
    "numpy arrays of 3..4000 entries) over the element zoo with 0-2 arguments, integrands from the grammar; one edit per "
    "pair drawn from: literal value, fixed index, unary/binary operator swap, operand swap of a non-commutative operator, "
    "coefficient element degree/family/shape/mapping, cell, geometric dimension, integral type, subdomain id, metadata "
    "value (last digits of a float, one array entry in the middle / at the end / in the 9th digit, nested value), "
    "removal of a metadata key, one coefficient/constant used in place of two of the same space (coefficients and "
    "constants are instances of ufl's classes or of user subclasses of them), derivative multi-index / function space of "
    "an ExternalOperator factor. non-trivial = a pair that is provably different (data edit, or integrand values differ "
    "numerically); distinct = distinct (form, edit)."
)
ASSUMPTIONS = [
    "edits that only change a Python type (1 vs '1', list vs tuple) are not generated",
    "integrand edits count only when the interpreter finds different values at two random points",
]
BUDGET = {"quick": {"examples": 2500, "seconds": 70}, "thorough": {"examples": 80000, "seconds": 1500}}
LABEL_FLOORS = {"quick": {"shared-objects": 500, "merge:types-differ": 40, "pair:different": 900, "edit:md_array": 60, "edit:element": 50, "rebuild": 2000}}
CASE_TIMEOUT = {"quick": 20, "thorough": 60}

OPS = {"arith", "math", "cond", "index", "tensor", "compound", "deriv", "pow", "abs", "var", "sign"}
PROF = Profile(ops=OPS, leaves={"coef", "const", "lit", "x", "geo", "eye"}, max_rank=2, elements="all", manifolds=True,
               args=((0, "any"), (1, "any")))
EDITS = ["bfo_derivatives", "bfo_space", "merge_fields", "merge_fields", "field_mesh", "field_mesh", "integral_mesh", "literal", "literal", "fixed_index", "index_pattern", "index_pattern", "operator", "operator", "swap_operands", "element", "element", "cell", "gdim",
         "itype", "sid", "md_value", "md_value", "md_array", "md_array", "md_key"]
MDS = [{}, {"quadrature_degree": 2}, {"quadrature_degree": 3, "scheme": "default"}, {"tol": 0.1234567890123},
       {"opts": {"a": 1, "b": [1, 2, 3]}}, {"quadrature_rule": "custom", "points": {"__array__": [3, 1, None, 0]}},
       {"__ordered__": [["quadrature_degree", 2], ["max_terms", 4]]},
       {"weights": {"__array__": [12, 2, None, 0]}}, {"weights": {"__array__": [1500, 3, None, 0]}},
       {"weights": {"__array__": [4000, 4, None, 0]}, "quadrature_degree": 2}]


@st.composite
def cases(draw, tier):
    world = draw(worlds(PROF))
    nmesh = draw(st.sampled_from([1, 1, 2, 3]))
    world["nmesh"] = nmesh
    if nmesh > 1:
        for n_, f_ in world["fields"].items():
            if f_["kind"] in ("coef", "const"):
                f_["mesh"] = draw(st.integers(0, nmesh - 1))
    for n_, f_ in world["fields"].items():
        if f_["kind"] in ("coef", "const"):
            f_["pytype"] = draw(st.sampled_from([0, 0, 0, 1, 2]))
    G = Gen(draw, world, PROF)
    L = LinGen(G)
    nargs = draw(st.sampled_from([0, 1, 2]))
    argnames = ["a0", "a1"][:nargs]
    for n in ("a0", "a1")[nargs:]:
        world["fields"].pop(n, None)
    integrals = []
    for _ in range(draw(st.sampled_from([1, 1, 2, 3]))):
        integrals.append({"itype": draw(st.sampled_from(["dx", "dx", "ds"])), "sid": draw_sid(draw), "md": draw(st.sampled_from(MDS)),
                          "mesh": draw(st.integers(0, nmesh - 1)), "expr": L.term(argnames, draw(st.integers(1, 2)))})
    edit = draw(st.sampled_from(EDITS))
    if edit.startswith("bfo_"):
        # a base form operator (ExternalOperator N(f0; derivatives, function space)) as a factor of the first integrand
        deg = draw(st.sampled_from([1, 2]))
        N = ["extop", ["fld", "f0"], [draw(st.integers(0, 2))], ["P", deg, []]]
        integrals[0]["expr"] = ["mul", N, integrals[0]["expr"]]
    return {"world": world, "vars": G.vars, "integrals": integrals, "edit": edit,
            "edit_seed": draw(st.integers(0, 10**6)), "noise": draw(st.integers(0, 40)), "env_seed": draw(st.integers(0, 10**6))}


def strategy(tier):
    return cases(tier)


# ------------------------------------------------------------------------------------------------ edits
UNARY_SWAP = {"sin": "cos", "cos": "sin", "exp": "tanh", "tanh": "exp", "sqrt": "ln", "ln": "sqrt", "atan": "tanh", "sinh": "cosh", "cosh": "sinh"}
BINARY_SWAP = {"add": "sub", "sub": "add", "lt": "gt", "gt": "lt", "le": "ge", "ge": "le", "max": "min", "min": "max"}
NONCOMM = {"sub", "div", "pow", "lt", "gt", "le", "ge", "outer", "cross"}


def sites(r, pred, path=()):
    out = []
    if isinstance(r, list):
        if r and isinstance(r[0], str) and pred(r):
            out.append(path)
        for k, x in enumerate(r):
            out += sites(x, pred, path + (k,))
    return out


def get(r, path):
    for k in path:
        r = r[k]
    return r


def put(r, path, v):
    if not path:
        return v
    r = list(r)
    r[path[0]] = put(r[path[0]], path[1:], v)
    return r


def apply_edit(case, rng):
    """-> (edited case, kind 'data' | 'integrand') or None if the edit has no site"""
    c = copy.deepcopy(case)
    e = case["edit"]
    k = int(rng.integers(0, len(c["integrals"])))
    itg = c["integrals"][k]
    if e == "literal":
        ss = sites(itg["expr"], lambda r: r[0] == "lit" and len(r) == 2 and not isinstance(r[1], dict))
        if not ss:
            return None
        p = ss[int(rng.integers(0, len(ss)))]
        old = get(itg["expr"], p)[1]
        new = [v for v in (0.5, 2, 3, -1, 7, 2.5000000001) if v != old][int(rng.integers(0, 5))]
        itg["expr"] = put(itg["expr"], p, ["lit", new])
        return c, "integrand"
    if e == "fixed_index":
        ss = sites(itg["expr"], lambda r: r[0] == "index" and any(isinstance(i, int) for i in r[2]))
        if not ss:
            return None
        p = ss[int(rng.integers(0, len(ss)))]
        node = get(itg["expr"], p)
        ix = list(node[2])
        pos = [q for q, i in enumerate(ix) if isinstance(i, int)]
        q = pos[int(rng.integers(0, len(pos)))]
        g = c["world"]["gdim"]
        if g < 2:
            return None
        ix[q] = (ix[q] + 1) % g
        itg["expr"] = put(itg["expr"], p, [node[0], node[1], ix])
        return c, "integrand"
    if e in ("field_mesh", "integral_mesh"):
        w = c["world"]
        nm = int(w.get("nmesh", 1))
        if nm < 2:
            return None
        if e == "integral_mesh":
            itg["mesh"] = (int(itg.get("mesh", 0)) + 1 + int(rng.integers(0, nm - 1))) % nm
            c["_edited"] = ["integral", k]
        else:
            used = [n for n, f in w["fields"].items() if f["kind"] in ("coef", "const") and str(["fld", n]) in str(c["integrals"])]
            if not used:
                return None
            n = used[int(rng.integers(0, len(used)))]
            w["fields"][n]["mesh"] = (int(w["fields"][n].get("mesh", 0)) + 1 + int(rng.integers(0, nm - 1))) % nm
            c["_edited"] = ["field", n]
        return c, "meshes"
    if e == "index_pattern":
        # exchange two entries of one index list (a fixed index with a free one, or two different entries)
        g = c["world"]["gdim"]

        def ok(r):
            if r[0] != "index" or len(r[2]) < 2:
                return False
            ent = [i for i in r[2] if i not in (":", "...")]
            return len(ent) >= 2 and len(ent) == len(r[2]) and len({str(i) for i in ent}) >= 2

        ss = sites(itg["expr"], ok)
        if not ss:
            # make a site: a matrix field indexed [0, i] contracted with a vector
            if g < 2 or "m1" not in c["world"]["fields"] or "w0" not in c["world"]["fields"]:
                return None
            extra = ["mul", ["index", ["fld", "m1"], [0, "i0"]], ["index", ["fld", "w0"], ["i0"]]]
            c0 = copy.deepcopy(case)
            c0["integrals"][k]["expr"] = ["add", c0["integrals"][k]["expr"], extra]
            if c0["integrals"][k]["expr"][1] and False:
                pass
            itg["expr"] = ["add", itg["expr"], ["mul", ["index", ["fld", "m1"], ["i0", 0]], ["index", ["fld", "w0"], ["i0"]]]]
            # only valid when the original integrand is a scalar without arguments problems: sums keep arity only if
            # the added term has the same arguments -> use it only for functionals
            if any(f["kind"] == "arg" for f in c["world"]["fields"].values()):
                return None
            return c, "integrand", c0
        p = ss[int(rng.integers(0, len(ss)))]
        node = get(itg["expr"], p)
        ix = list(node[2])
        pairs = [(a, b_) for a in range(len(ix)) for b_ in range(a + 1, len(ix)) if str(ix[a]) != str(ix[b_])]
        a, b_ = pairs[int(rng.integers(0, len(pairs)))]
        ix[a], ix[b_] = ix[b_], ix[a]
        itg["expr"] = put(itg["expr"], p, [node[0], node[1], ix])
        return c, "integrand"
    if e in ("bfo_derivatives", "bfo_space"):
        ss = sites(c["integrals"][0]["expr"], lambda r: r[0] == "extop")
        if not ss:
            return None
        node = list(get(c["integrals"][0]["expr"], ss[0]))
        if e == "bfo_derivatives":
            node[2] = [(node[2][0] + 1 + int(rng.integers(0, 2))) % 3]
        else:
            node[3] = ["P", node[3][1] + 1, []] if rng.integers(0, 2) else ["DG", node[3][1], []]
        c["integrals"][0]["expr"] = put(c["integrals"][0]["expr"], ss[0], node)
        return c, "bfo"
    if e == "merge_fields":
        # one coefficient (constant) used where two were: the compiler receives one array less
        w = c["world"]
        dumped = str(c["integrals"]) + str(c.get("vars", ()))
        used = [n for n, f in w["fields"].items() if f["kind"] in ("coef", "const") and str(["fld", n]) in dumped]
        pairs = [(a, b_) for a in used for b_ in used if a != b_ and w["fields"][a]["kind"] == w["fields"][b_]["kind"]
                 and list(w["fields"][a]["shape"]) == list(w["fields"][b_]["shape"])]
        if not pairs:
            return None
        a, b_ = pairs[int(rng.integers(0, len(pairs)))]
        # the two fields live in the same space in both forms of the pair
        c0 = copy.deepcopy(case)
        for cc in (c, c0):
            for key in ("elem", "mesh"):
                if key in cc["world"]["fields"][a]:
                    cc["world"]["fields"][b_][key] = copy.deepcopy(cc["world"]["fields"][a][key])
                else:
                    cc["world"]["fields"][b_].pop(key, None)

        def sub(r):
            if isinstance(r, list):
                if r == ["fld", b_]:
                    return ["fld", a]
                return [sub(x) for x in r]
            return r

        for i_ in c["integrals"]:
            i_["expr"] = sub(i_["expr"])
        c["vars"] = [sub(v) for v in c.get("vars", ())]
        c["_merged"] = [a, b_]
        return c, "merge", c0
    if e == "operator":
        ss = sites(itg["expr"], lambda r: (r[0] == "fn" and r[1] in UNARY_SWAP) or r[0] in BINARY_SWAP)
        if not ss:
            return None
        p = ss[int(rng.integers(0, len(ss)))]
        node = list(get(itg["expr"], p))
        if node[0] == "fn":
            node[1] = UNARY_SWAP[node[1]]
        else:
            node[0] = BINARY_SWAP[node[0]]
        itg["expr"] = put(itg["expr"], p, node)
        return c, "integrand"
    if e == "swap_operands":
        ss = sites(itg["expr"], lambda r: r[0] in NONCOMM and len(r) == 3)
        if not ss:
            return None
        p = ss[int(rng.integers(0, len(ss)))]
        node = get(itg["expr"], p)
        itg["expr"] = put(itg["expr"], p, [node[0], node[2], node[1]])
        return c, "integrand"
    if e == "element":
        used = [n for n, f in c["world"]["fields"].items() if f.get("elem") and str(["fld", n]) in str(c["integrals"])]
        if not used:
            return None
        n = used[int(rng.integers(0, len(used)))]
        el = list(c["world"]["fields"][n]["elem"])
        if el[0] in ("P", "DG"):
            how = int(rng.integers(0, 2))
            if how == 0:
                el[1] = el[1] + 1
            else:
                el[0] = "DG" if el[0] == "P" else "P"
        elif el[0] in ("RT", "N1"):
            el = ["N1" if el[0] == "RT" else "RT", el[1]] if rng.integers(0, 2) else [el[0], el[1] + 1]
        elif el[0] in ("Regge", "HHJ", "GLS"):
            el = [{"Regge": "HHJ", "HHJ": "GLS", "GLS": "Regge"}[el[0]], el[1]]
        elif el[0] == "DGp":
            el = ["DGp", el[1] + 1]
        elif el[0] == "Real":
            el = ["DG", 0, []]
        else:
            return None
        c["world"]["fields"][n]["elem"] = el
        return c, "data"
    if e in ("cell", "gdim"):
        # another cell type embedded in the same geometric dimension: all value shapes stay, only the domain changes
        w = c["world"]
        td = {"interval": 1, "triangle": 2, "tetrahedron": 3}
        others = [n for n, t in td.items() if t <= w["gdim"] and n != w["cell"]]
        if not others or "curl" in str(c["integrals"]):
            return None
        w["cell"] = others[int(rng.integers(0, len(others)))]
        return c, "data"
    if e == "itype":
        itg["itype"] = "ds" if itg["itype"] == "dx" else "dx"
        if "FacetNormal" in str(itg["expr"]) or "FacetArea" in str(itg["expr"]):
            return None
        return c, "data"
    if e == "sid":
        old = itg["sid"]
        itg["sid"] = [v for v in (None, 0, 1, 4, [1, 2], [1, 3]) if v != old][int(rng.integers(0, 5))]
        return c, "data"
    if e == "md_value" and isinstance(itg["md"], dict) and "__ordered__" in itg["md"]:
        # the corresponding permutation: values exchanged between the keys, keys written in the other order
        (k1, v1), (k2, v2) = itg["md"]["__ordered__"]
        itg["md"] = {"__ordered__": [[k2, v1], [k1, v2]]}
        return c, "data"
    if e in ("md_array", "md_key") and isinstance(itg["md"], dict) and "__ordered__" in itg["md"]:
        return None
    if e == "md_value":
        md = itg["md"]
        if not md:
            itg["md"] = {"quadrature_degree": 2}
            return c, "data"
        key = sorted(md)[int(rng.integers(0, len(md)))]
        v = md[key]
        if isinstance(v, bool) or v is None:
            return None
        if isinstance(v, int):
            md[key] = v + 1
        elif isinstance(v, float):
            md[key] = v * (1 + 1e-12) if rng.integers(0, 2) else v + 0.5
        elif isinstance(v, str):
            md[key] = v + "x"
        elif isinstance(v, dict) and "__array__" not in v:
            kk = sorted(v)[0]
            v[kk] = (v[kk] + 1) if isinstance(v[kk], int) else [9] + list(v[kk])[1:]
        else:
            return None
        return c, "data"
    if e == "md_array":
        md = itg["md"]
        keys = [k_ for k_, v in md.items() if isinstance(v, dict) and "__array__" in v]
        if not keys:
            n = [3, 12, 1500, 4000][int(rng.integers(0, 4))]
            md = dict(md)
            md["weights"] = {"__array__": [n, 5, None, 0]}
            itg["md"] = md
            c0 = copy.deepcopy(case)
            c0["integrals"][k]["md"] = copy.deepcopy(md)
            keys = ["weights"]
            base = c0
        else:
            base = case
        key = keys[0]
        n = itg["md"][key]["__array__"][0]
        pos = [0, n // 2, n - 1][int(rng.integers(0, 3))]
        delta = [0.5, 1e-3, 3e-9][int(rng.integers(0, 3))]
        itg["md"] = dict(itg["md"])
        itg["md"][key] = {"__array__": [n, itg["md"][key]["__array__"][1], pos, delta]}
        return c, "data", base
    if e == "md_key":
        if not itg["md"]:
            return None
        md = dict(itg["md"])
        md.pop(sorted(md)[0])
        itg["md"] = md
        return c, "data"
    return None


def mesh_description(case, b, fe, perm):
    """what the *built* form says about meshes, with mesh k renamed perm[k]: surviving fields -> mesh, surviving
    integrals with their mesh, meshes of the geometric quantities (fields and integrals that construction folded away
    -- f**0, a fixed component of a list tensor, zero integrands -- say nothing)"""
    import json

    from ufl.classes import GeometricQuantity, Zero
    from ufl.corealg.traversal import traverse_unique_terminals

    form, exprs = fe
    names = {id(t): n for n, t in b.fields.items()}
    fields, geo = {}, set()
    itgs = []
    for k, (i, x) in enumerate(zip(case["integrals"], exprs)):
        if isinstance(x, Zero):
            continue
        for t in traverse_unique_terminals(x):
            if id(t) in names:
                n = names[id(t)]
                fields[n] = perm[int(case["world"]["fields"][n].get("mesh", 0))]
            elif isinstance(t, GeometricQuantity):
                geo.add(perm[b.meshes.index(t.ufl_domain())])
        itgs.append(json.dumps([perm[int(i.get("mesh", 0))], i["itype"], i["sid"], i["md"], i["expr"]], sort_keys=True))
    return json.dumps([fields, sorted(itgs), sorted(geo)], sort_keys=True)


def mesh_equivalent(c1, b1, fe1, c2, b2, fe2):
    import itertools

    nm = int(c1["world"].get("nmesh", 1))
    d1 = mesh_description(c1, b1, fe1, list(range(nm)))
    return any(mesh_description(c2, b2, fe2, list(p)) == d1 for p in itertools.permutations(range(nm)))


def noise(n):
    import ufl

    from vf.elements import make_element, make_mesh

    m = make_mesh("triangle", 2)
    V = ufl.FunctionSpace(m, make_element(["P", 1, []], "triangle"))
    for k in range(n):
        ufl.Coefficient(V)
        ufl.Constant(m)
        ufl.Index()
        if k % 3 == 0:
            ufl.variable(ufl.Coefficient(V))
        if k % 7 == 0:
            make_mesh("interval", 1)


_TYPES = {}


def pytypes():
    """Coefficient / Constant classes as a problem solving environment defines them (subclasses of ufl's)"""
    if not _TYPES:
        import ufl

        class FunctionA(ufl.Coefficient):
            pass

        class FunctionB(ufl.Coefficient):
            pass

        class ConstantA(ufl.Constant):
            pass

        _TYPES["coef"] = [ufl.Coefficient, FunctionA, FunctionB]
        _TYPES["const"] = [ufl.Constant, ConstantA, ConstantA]
    return _TYPES


class TypedBuilder(Builder):
    """fields are instances of the Python class named by their 'pytype'"""

    def mk_coef(self, V, name):
        return pytypes()["coef"][int(self.world["fields"][name].get("pytype", 0))](V)

    def mk_const(self, mesh, shape, name):
        cls = pytypes()["const"][int(self.world["fields"][name].get("pytype", 0))]
        return cls(mesh) if shape == () else cls(mesh, shape=shape)


def signature_of(case):
    b = TypedBuilder(case["world"], case.get("vars", ()))
    form, exprs = build_form(b, case["integrals"])
    if form is None or not form.integrals():
        return None, None, None
    return form.signature(), b, (form, exprs)


def check_case(case):
    rng = np.random.default_rng(case["edit_seed"])
    try:
        s1, b1, fe1 = signature_of(case)
    except RecursionError:
        raise
    except Exception as ex:
        raise Discard("build:" + type(ex).__name__)
    if s1 is None:
        raise Discard("empty form")
    labels = []
    # ---- equal => equal
    noise(case["noise"])
    s1b, _, _ = signature_of(case)
    if s1b != s1:
        raise Violation("the same form built twice (fresh objects, shifted counters) has two signatures", {"kind": "rebuild-differs"})
    labels.append("rebuild")
    # ---- different => different
    ed = apply_edit(case, rng)
    if ed is None:
        return {"nontrivial": False, "labels": labels + ["edit-not-applicable"]}
    if len(ed) == 3:
        c2, kind, base = ed
        try:
            s1, b1, fe1 = signature_of(base)
        except RecursionError:
            raise
        except Exception:
            return {"nontrivial": False, "labels": labels + ["edit-does-not-build"]}
        if s1 is None:
            return {"nontrivial": False, "labels": labels + ["edit-empties-form"]}
    else:
        c2, kind = ed
    try:
        s2, b2, fe2 = signature_of(c2)
    except RecursionError:
        raise
    except Exception:
        return {"nontrivial": False, "labels": labels + ["edit-does-not-build"]}
    if s2 is None:
        return {"nontrivial": False, "labels": labels + ["edit-empties-form"]}
    # ---- equal => equal, with history: the edited form built again from the *objects of the first form* (same meshes,
    # spaces, coefficients; their signature data has already been asked for under another domain numbering)
    base_case = base if len(ed) == 3 else case
    # (not with variables: their labels are created on first use, so the two builds would differ in creation order)
    if c2["world"] == base_case["world"] and not c2.get("vars") and not base_case.get("vars"):
        try:
            f_shared, _ = build_form(b1, c2["integrals"])
            s2_shared = f_shared.signature() if (f_shared is not None and f_shared.integrals()) else None
        except RecursionError:
            raise
        except Exception:
            s2_shared = None
        if s2_shared is not None:
            labels.append("shared-objects")
            if s2_shared != s2:
                raise Violation(f"a form has another signature when it is built from objects that were used in another form before "
                                f"(edit: {case['edit']})", {"kind": "history:" + case["edit"]})
    provable = kind == "data"
    if kind == "meshes":
        provable = not mesh_equivalent(case, b1, fe1, c2, b2, fe2)
        # ... and the edited entity must have survived construction (f**0, grad of a constant, ... fold away)
        from ufl.classes import Zero
        from ufl.corealg.traversal import traverse_unique_terminals

        what, which = c2["_edited"]
        if what == "integral":
            provable = provable and which < len(fe1[1]) and not isinstance(fe1[1][which], Zero) and not isinstance(fe2[1][which], Zero)
        else:
            t1 = b1.fields[which]
            provable = provable and any(t is t1 or t == t1 for x in fe1[1] for t in traverse_unique_terminals(x))
    form1, ex1 = fe1
    form2, ex2 = fe2
    if case["edit"] == "element":
        # the edited field must really occur in the built form (construction may have folded it away)
        provable = [c.ufl_element() for c in form1.coefficients()] != [c.ufl_element() for c in form2.coefficients()] or \
            [a.ufl_element() for a in form1.arguments()] != [a.ufl_element() for a in form2.arguments()]
    if kind == "bfo":
        # the operator must have survived construction in both forms (a zero factor folds the product away)
        from ufl.core.base_form_operator import BaseFormOperator
        from ufl.corealg.traversal import unique_pre_traversal

        provable = all(any(isinstance(n_, BaseFormOperator) for x in ex_ for n_ in unique_pre_traversal(x)) for ex_ in (ex1, ex2))
    if kind == "merge":
        # provable when both fields occur in the built base form and the kept one in the merged form
        a_, b_ = c2["_merged"]
        t1 = form1.coefficients() + tuple(form1.constants())
        t2 = form2.coefficients() + tuple(form2.constants())
        provable = any(t is b1.fields[a_] for t in t1) and any(t is b1.fields[b_] for t in t1) and len(t2) == len(t1) - 1
        labels.append("merge:types-differ" if case["world"]["fields"][a_].get("pytype", 0) != case["world"]["fields"][b_].get("pytype", 0)
                      else "merge:same-type")
    if kind == "integrand":
        # what a compiler sees: the k-th coefficient / constant / argument of the form, whatever object it is.  If the
        # lists of elements differ the forms differ as data; otherwise the integrand values must differ at random
        # points with the k-th terminals of both forms identified.
        els1 = [c.ufl_element() for c in form1.coefficients()] + [a.ufl_element() for a in form1.arguments()]
        els2 = [c.ufl_element() for c in form2.coefficients()] + [a.ufl_element() for a in form2.arguments()]
        cs1, cs2 = form1.constants(), form2.constants()
        if els1 != els2 or [c.ufl_shape for c in cs1] != [c.ufl_shape for c in cs2] or len(ex1) != len(ex2):
            provable = True
        else:
            differs = False
            try:
                for rep in range(2):
                    for k_, (x1, x2) in enumerate(zip(ex1, ex2)):
                        order = max(derivative_depth(x1), derivative_depth(x2))
                        if order > 3:
                            continue
                        facet = case["integrals"][k_]["itype"] == "ds"
                        v1 = Guard(Interp(make_env(case, rep, facet=facet), order=order)).value(x1)
                        I2 = Interp(make_env(case, rep, facet=facet), order=order)
                        for t1, t2 in zip(form1.coefficients() + form1.arguments(), form2.coefficients() + form2.arguments()):
                            if repr(t1) != repr(t2):
                                I2.alias[repr(t2)] = t1
                        for t1, t2 in zip(cs1, cs2):
                            I2.envs[None].fixed["const:" + repr(t2)] = I2.envs[None].rand("const:" + repr(t1), t2.ufl_shape)
                        v2 = Guard(I2).value(x2)
                        if v1.shape != v2.shape or not close(v1, v2, rtol=1e-6, atol=1e-9):
                            differs = True
            except Discard:
                differs = False
            except (ValueError, AssertionError, IndexError, KeyError, TypeError):
                # the edit produced an ill-typed integrand that ufl did not reject (e.g. exchanged indices of a
                # non-square tensor): not a usable pair
                differs = False
            provable = differs
    if not provable:
        return {"nontrivial": False, "labels": labels + ["pair:not-provably-different"]}
    if s1 == s2:
        raise Violation(f"forms that differ for a compiler share a signature (edit: {case['edit']})", {"kind": "collision:" + case["edit"]})
    return {"nontrivial": True, "labels": labels + ["pair:different", "edit:" + ("element" if case["edit"] == "element" else case["edit"])]}

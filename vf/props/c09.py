"""C09 Jacobian product cancellation preserves values.

Two strata.
 synthetic: index-notation products over a small pool of index objects (so the same Index is summed, free and bound
            in nested scopes), factors J[a,k], K[k,b], Identity[a,b] (geometric and topological size), indexed
            coefficients/constants of physical and reference extents, fixed indices, powers base**p with positive,
            negative, fractional exponents, powers of powers, 1/base, bases detJ (either sign), |detJ|, coefficients.
            Evaluated in a free valuation (atoms) whose Jacobian data are consistent: K = pinv(J), detJ = signed
            (pseudo-)determinant.
 pipeline:  integrands of generated forms taken at the point of compute_form_data where cancel_jacobian_products
            runs (pull-backs, scaling, geometry lowering with J/K/detJ preserved, derivatives, component tensors
            removed), evaluated on a random cell with polynomial fields.
Oracle: value, shape and free indices before == after JacobianCanceller / IdentityEliminator / ReciprocalCanceller
(each alone and the composition cancel_jacobian_products).  Points where the *original* is non-finite are discarded.
"""

import numpy as np
from hypothesis import strategies as st

from vf.build import Builder
from vf.common import Discard, Violation
from vf.interp import Env, Interp, close, derivative_depth
from vf.props.valuecommon import warmup  # noqa: F401
from vf.props.valuecommon import Guard, check_acyclic, eval_output, exc_bucket, make_env, rel_err, same_type
from vf.refcell import Geometry

LEVEL = "exploration"
RULE = (
    "Hypothesis. synthetic stratum: products/sums of 2-6 factors drawn from J[a,k], K[k,b], Identity[a,b], indexed "
    "coefficients and constants, scalar powers (exponents +-1, +-2, +-3, +-0.5, +-1.5, 0.7, nested powers, 1/x) over "
    "bases detJ, |detJ|, coefficients; indices from a pool of 3 physical + 3 reference Index objects or fixed "
    "integers, random association order, so sums nest and the same Index object is re-used free/bound; cells incl. "
    "immersed manifolds (gdim>tdim); in a quarter of the cases J and K belong to two different meshes of one kind. pipeline stratum: integrands of generated forms right before "
    "cancel_jacobian_products in the pass order of compute_form_data. One pass (or the composition) per case. "
    "non-trivial = the pass changed the expression; distinct = distinct (recipe, pass)."
)
ASSUMPTIONS = [
    "free valuation with K = pinv(J) (J of full rank, condition <= 50), detJ = det J or orientation*sqrt(det J^T J)",
    "cases whose original value is non-finite (negative base with fractional exponent) or ill-conditioned are discarded",
]
BUDGET = {"quick": {"examples": 6000, "seconds": 70}, "thorough": {"examples": 200000, "seconds": 1500}}
LABEL_FLOORS = {"quick": {"changed": 500, "stratum:pipeline": 100, "manifold": 300}}
CASE_TIMEOUT = {"quick": 20, "thorough": 60}

PASSES = ["JacobianCanceller", "IdentityEliminator", "ReciprocalCanceller", "all", "all"]
PHYS = ["i0", "i1", "i2"]
REFI = ["i3", "i4", "i5"]
EXPONENTS = [1, -1, 2, -2, 3, -3, 0.5, -0.5, 1.5, -1.5, 0.7, 2, -1]
TD = {"interval": 1, "triangle": 2, "tetrahedron": 3}


def synth_world(cell, g):
    t = TD[cell]
    P1 = lambda sh: ["P", 1, list(sh)]
    fields = {
        "f0": dict(kind="coef", elem=P1(()), shape=[]),
        "f1": dict(kind="coef", elem=P1(()), shape=[]),
        "w0": dict(kind="coef", elem=P1((g,)), shape=[g]),
        "m0": dict(kind="coef", elem=P1((g, g)), shape=[g, g]),
        "c0": dict(kind="const", shape=[]),
        "cT": dict(kind="const", shape=[t]),
        "cTT": dict(kind="const", shape=[t, t]),
        "cGT": dict(kind="const", shape=[g, t]),
        "cTG": dict(kind="const", shape=[t, g]),
    }
    return {"cell": cell, "gdim": g, "fields": fields}


@st.composite
def synthetic(draw):
    cell = draw(st.sampled_from(["interval", "triangle", "triangle", "tetrahedron"]))
    t = TD[cell]
    g = draw(st.integers(t, 3))
    world = synth_world(cell, g)

    def idx(pool, dim):
        if draw(st.integers(0, 7)) == 0:
            return draw(st.integers(0, dim - 1))
        return draw(st.sampled_from(pool[: draw(st.sampled_from([2, 2, 3]))]))

    # a second mesh of the same kind in a quarter of the cases: J and K of different meshes must not cancel
    nmesh = draw(st.sampled_from([1, 1, 1, 2]))
    world["nmesh"] = nmesh

    def mesh_of():
        return draw(st.integers(0, nmesh - 1))

    def scalar_base(depth=1):
        k = draw(st.sampled_from(["detJ", "detJ", "absdetJ", "f0", "f1", "c0", "pow"] if depth > 0 else ["detJ", "f0", "c0"]))
        if k == "detJ":
            return ["geo", "JacobianDeterminant"]
        if k == "absdetJ":
            return ["abs", ["geo", "JacobianDeterminant"]]
        if k == "pow":
            return ["pow", scalar_base(depth - 1), ["lit", draw(st.sampled_from(EXPONENTS))]]
        return ["fld", k]

    def scalar_factor():
        k = draw(st.sampled_from(["base", "pow", "pow", "recip", "lit"]))
        if k == "base":
            return scalar_base()
        if k == "pow":
            return ["pow", scalar_base(), ["lit", draw(st.sampled_from(EXPONENTS))]]
        if k == "recip":
            return ["div", ["lit", 1], scalar_base()]
        return ["lit", draw(st.sampled_from([2, 0.5, -1, 3]))]

    def factor():
        k = draw(st.sampled_from(["J", "J", "K", "K", "Ig", "It", "w", "m", "cT", "cTT", "cGT", "cTG", "s", "s"]))
        p = lambda: idx(PHYS, g)
        r = lambda: idx(REFI, t)
        if k == "J":
            return ["index", ["geom", "Jacobian", mesh_of()], [p(), r()]]
        if k == "K":
            return ["index", ["geom", "JacobianInverse", mesh_of()], [r(), p()]]
        if k == "Ig":
            return ["index", ["eye", g], [p(), p()]]
        if k == "It":
            return ["index", ["eye", t], [r(), r()]]
        if k == "w":
            return ["index", ["fld", "w0"], [p()]]
        if k == "m":
            return ["index", ["fld", "m0"], [p(), p()]]
        if k == "cT":
            return ["index", ["fld", "cT"], [r()]]
        if k == "cTT":
            return ["index", ["fld", "cTT"], [r(), r()]]
        if k == "cGT":
            return ["index", ["fld", "cGT"], [p(), r()]]
        if k == "cTG":
            return ["index", ["fld", "cTG"], [r(), p()]]
        return scalar_factor()

    def power_of(b):
        k = draw(st.sampled_from(["p", "p", "nested", "recip", "recip_p"]))
        e1 = draw(st.sampled_from(EXPONENTS))
        if k == "p":
            return ["pow", b, ["lit", e1]]
        if k == "nested":
            return ["pow", ["pow", b, ["lit", draw(st.sampled_from([2, 2, -2, 3, 0.5, -1]))]], ["lit", e1]]
        if k == "recip":
            return ["div", ["lit", 1], b]
        return ["div", ["lit", 1], ["pow", b, ["lit", e1]]]

    def product(n):
        fs = [factor() for _ in range(n)]
        if draw(st.integers(0, 2)) == 0:
            # the same base with several exponents: what the reciprocal cancellation looks for
            b = scalar_base(0)
            for _ in range(draw(st.integers(2, 3))):
                fs.insert(draw(st.integers(0, len(fs))), power_of(b) if draw(st.integers(0, 4)) else b)
        # random association order
        while len(fs) > 1:
            i = draw(st.integers(0, len(fs) - 2))
            fs[i:i + 2] = [["mul", fs[i], fs[i + 1]]]
        return fs[0]

    e = product(draw(st.integers(2, 6)))
    if draw(st.integers(0, 3)) == 0:
        e = ["add", e, ["mul", scalar_factor(), e]]
    if draw(st.integers(0, 3)) == 0:
        e = ["mul", product(draw(st.integers(1, 3))), e]
    return {"world": world, "expr": e, "vars": [], "stratum": "synthetic"}


@st.composite
def cases(draw, tier):
    p = draw(st.sampled_from(PASSES))
    if draw(st.integers(0, 4)) == 0:
        from vf.props import c01

        c = draw(c01.cases(tier))
        c["options"].update({"do_apply_function_pullbacks": draw(st.integers(0, 3)) > 0,
                             "do_apply_integral_scaling": draw(st.booleans())})
        c["stratum"] = "pipeline"
    else:
        c = draw(synthetic())
    c["pass"] = p
    c["env_seed"] = draw(st.integers(0, 10**6))
    return c


def strategy(tier):
    return cases(tier)


def apply_pass(p, e):
    from ufl.algorithms import cancel_jacobian_products as cj
    from ufl.algorithms.map_integrands import map_integrands

    if p == "all":
        return cj.cancel_jacobian_products(e)
    return map_integrands(getattr(cj, p)(), e)


def pipeline_integrands(case):
    """Integrands as they reach cancel_jacobian_products inside compute_form_data (same pass order)."""
    import ufl
    from ufl.algorithms.apply_derivatives import apply_derivatives
    from ufl.algorithms.apply_function_pullbacks import apply_function_pullbacks
    from ufl.algorithms.apply_geometry_lowering import apply_geometry_lowering
    from ufl.algorithms.apply_integral_scaling import apply_integral_scaling
    from ufl.algorithms.compute_form_data import attach_estimated_degrees, preprocess_form
    from ufl.algorithms.domain_analysis import group_form_integrals
    from ufl.algorithms.remove_component_tensors import remove_component_tensors
    from ufl.classes import Jacobian, JacobianDeterminant, JacobianInverse

    from vf.forms import build_form

    b = Builder(case["world"], case.get("vars", ()))
    try:
        form, _ = build_form(b, case["integrals"])
    except RecursionError:
        raise
    except Exception as ex:
        raise Discard("build:" + type(ex).__name__)
    if form is None or not form.integrals():
        raise Discard("empty form")
    o = case["options"]
    try:
        orig = form
        form = preprocess_form(form, o["complex_mode"])
        form = group_form_integrals(form, orig.ufl_domains(), do_append_everywhere_integrals=o["do_append_everywhere_integrals"])
        form = attach_estimated_degrees(form)
        if o["do_apply_function_pullbacks"]:
            form = apply_function_pullbacks(form)
        if o["do_apply_integral_scaling"]:
            form = apply_integral_scaling(form)
        keep = {Jacobian, JacobianInverse, JacobianDeterminant}
        form = apply_geometry_lowering(form, keep)
        form = apply_derivatives(form)
        form = apply_geometry_lowering(form, keep)
        form = apply_derivatives(form)
        form = remove_component_tensors(form)
    except RecursionError:
        raise
    except BaseException as ex:
        if type(ex).__name__ in ("CaseTimeout", "StopRun", "KeyboardInterrupt"):
            raise
        raise Discard("pre:" + type(ex).__name__)
    return b, [(itg.integral_type(), itg.integrand()) for itg in form.integrals()]


def atoms_env(case, rep):
    w = case["world"]
    rng = np.random.default_rng([int(case["env_seed"]), rep, 9])
    geo = Geometry.random(rng, w["cell"], w["gdim"])
    return Env(geo, geo.random_cell_point(rng), facet=0, weight=0.7, seed=int(case["env_seed"]) * 5 + rep, mode="atoms")


def check_case(case):
    import ufl

    p = case["pass"]
    if case["stratum"] == "pipeline":
        b, items = pipeline_integrands(case)
        if any(t == "interior_facet" for t, _ in items):
            items = [(t, e) for t, e in items if t != "interior_facet"]
        if not items:
            raise Discard("no cell/exterior-facet integrals")
    else:
        b = Builder(case["world"], ())
        try:
            e = ufl.as_ufl(b.build(case["expr"]))
        except RecursionError:
            raise
        except Exception as ex:
            raise Discard("build:" + type(ex).__name__)
        items = [("cell", e)]
    changed = False
    for itype, e in items:
        check_acyclic(e, "input")
        try:
            out = ufl.as_ufl(apply_pass(p, e))
        except RecursionError:
            raise
        except Exception as ex:
            raise Violation(f"{p} raised {type(ex).__name__}: {str(ex)[:300]}", {"kind": "raised:" + exc_bucket(ex), "pass": p})
        check_acyclic(out, "output")
        if not same_type(e, out):
            raise Violation(f"{p}: shape/free indices {e.ufl_shape},{e.ufl_free_indices} -> {out.ufl_shape},{out.ufl_free_indices}",
                            {"kind": "type-changed", "pass": p})
        changed |= out is not e and out != e
        for rep in range(2):
            if case["stratum"] == "pipeline":
                env = make_env(case, rep, facet=(itype == "exterior_facet"), cplx=case["options"]["complex_mode"])
                order = max(derivative_depth(e), derivative_depth(out))
                if order > 3:
                    raise Discard("derivative order > 3")
                I = Interp(env, order=order)
            else:
                I = Interp(atoms_env(case, rep))
                for k_, m_ in enumerate(b.meshes[1:]):
                    rng2 = np.random.default_rng([int(case["env_seed"]), rep, 9, k_ + 1])
                    I.geo_by_domain[repr(m_)] = Geometry.random(rng2, case["world"]["cell"], case["world"]["gdim"])
            G = Guard(I, min_den=1e-4)
            a = G.value(e)
            bv = eval_output(G, out)
            if not close(a, bv, rtol=1e-7, atol=1e-9):
                raise Violation(f"{p}: value changed: before {np.ravel(a)[:3]} vs after {np.ravel(bv)[:3]} (rel err {rel_err(a, bv):.3g})",
                                {"kind": "value", "pass": p})
    w = case["world"]
    labels = ["pass:" + p, "stratum:" + case["stratum"]]
    if changed:
        labels.append("changed")
    if w["gdim"] > TD[w["cell"]]:
        labels.append("manifold")
    if w.get("nmesh", 1) > 1 and '"Jacobian", 1]' in __import__("json").dumps(case.get("expr", "")) + "" or \
            (w.get("nmesh", 1) > 1 and '"JacobianInverse", 1]' in __import__("json").dumps(case.get("expr", ""))):
        labels.append("two-meshes")
    return {"nontrivial": changed, "labels": labels}

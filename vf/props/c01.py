"""C01 Form preprocessing preserves the meaning of every integral.

For a generated form and a generated option set, compute_form_data either raises or returns integral data such
that, for every (integral type, subdomain id), at a random point of a random affine cell / facet / facet pair

   sum of the preprocessed integrands listed for that subdomain (evaluated with reference-frame data:
   ReferenceValue, ReferenceGrad, Jacobian, QuadratureWeight, ... of the environment)
 ==
   scale(integral type) * sum of the original integrands that apply there (evaluated with physical data)

where the original side and the scale factor (|detJ| w, pdet(J CFJ) w on the '+' side, 1 for vertex facets) are
computed by the harness' own interpreter / geometry code, not by any ufl pass.
"""

import numpy as np
from hypothesis import strategies as st

from vf.build import Builder
from vf.common import Discard, Violation
from vf.forms import ITYPE_NAME, LinGen, applies_to, build_form, draw_md, draw_sid, restrict_term
from vf.gen import GEO_SCALAR_CELL, GEO_SCALAR_FACET, Gen, Profile, TDIM, ops_in, worlds
from vf.interp import Interp, close, derivative_depth
from vf.props.valuecommon import warmup  # noqa: F401
from vf.props.valuecommon import Guard, check_acyclic, eval_output, exc_bucket, make_env, make_two_sided, rel_err

LEVEL = "exploration"
RULE = (
    "Hypothesis: forms of 1-3 integrals over dx/ds/dS with subdomain ids (everywhere, int, tuple) and metadata, 0-2 "
    "arguments and coefficients from the element zoo (identity, all Piola kinds, symmetric, L2), integrands = sums of "
    "terms that are multilinear in the arguments by construction with argument-free factors from the full expression "
    "grammar (tensor algebra, index notation, derivatives to order 2, conditionals, math functions, geometric "
    "quantities); cells interval/triangle/tetrahedron with gdim>=tdim (dS on flat meshes); one option set per case drawn "
    "from the product of pullbacks/scaling/geometry lowering/Jacobian cancellation/component-tensor removal/"
    "restriction options/append-everywhere/degree estimation/replace-functions/complex mode/preserved geometry types. "
    "non-trivial = compute_form_data succeeded, at least one lowering option was on, and the form contains a "
    "non-identity pull-back, a spatial derivative or a geometric quantity; distinct = distinct (form, option set)."
)
ASSUMPTIONS = [
    "reference interpreter + reference-cell tables (DESIGN 7); fields are random reference polynomials pushed forward "
    "by the harness' own table; H1 fields on dS share their trace, others are independent per side",
    "an exception raised by compute_form_data satisfies the statement ('or raises') and is only counted; a floor on "
    "the number of successfully processed cases keeps the check from becoming vacuous",
    "ill-conditioned points are discarded",
]
BUDGET = {"quick": {"examples": 1800, "seconds": 75}, "thorough": {"examples": 60000, "seconds": 1500}}
LABEL_FLOORS = {"quick": {"processed": 600, "opt:pullbacks": 150, "opt:scaling": 150, "opt:geometry": 150, "opt:cancel": 50,
                          "itype:dS": 40, "itype:ds": 80, "manifold": 80},
                "thorough": {"processed": 10000}}
CASE_TIMEOUT = {"quick": 20, "thorough": 60}

OPS_REAL = {"arith", "math", "cond", "index", "tensor", "compound", "deriv", "pow", "abs", "var", "sign", "math2",
            "geotensor"}
REAL = Profile(ops=OPS_REAL, leaves={"coef", "const", "lit", "x", "geo", "zero", "eye"}, max_rank=2, elements="all",
               manifolds=True, args=((0, "any"), (1, "any")), weights={"JK": 5})
FACET = Profile(ops=OPS_REAL | {"derivn"}, leaves={"coef", "const", "lit", "x", "geo", "zero", "eye", "n"}, max_rank=2,
                elements="all", manifolds=True, facet=True, args=((0, "any"), (1, "any")))
INTERIOR = Profile(ops=OPS_REAL, leaves={"coef", "const", "lit", "x", "geo", "zero", "eye", "n"}, max_rank=2,
                   elements="all", interior=True, facet=True, manifolds=True, args=((0, "any"), (1, "any")))
CPLX = Profile(ops={"arith", "math", "index", "tensor", "compound", "deriv", "pow", "var", "complexops"}, cplx=True,
               leaves={"coef", "const", "lit", "x", "zero", "eye"}, max_rank=2, elements="all", manifolds=True,
               args=((0, "any"), (1, "any")))
INTERIOR_SURF = Profile(ops=OPS_REAL, leaves={"coef", "const", "lit", "x", "geo", "zero", "eye", "n"}, max_rank=2,
                        elements="all", interior=True, facet=True, manifolds=True, args=((0, "any"), (1, "any")),
                        cells=("interval", "triangle", "interval", "triangle", "tetrahedron"))
FACET_SURF = Profile(ops=OPS_REAL | {"derivn"}, leaves={"coef", "const", "lit", "x", "geo", "zero", "eye", "n"}, max_rank=2,
                     elements="all", manifolds=True, facet=True, args=((0, "any"), (1, "any")),
                     cells=("interval", "interval", "triangle"))
PRESERVE = ["Jacobian", "JacobianInverse", "JacobianDeterminant", "FacetNormal", "CellVolume", "FacetArea", "Circumradius"]


@st.composite
def cases(draw, tier):
    cplx = draw(st.integers(0, 5)) == 0
    kind = "cplx" if cplx else draw(st.sampled_from(["cell", "cell", "facet", "interior", "interior"]))
    # focus stratum (1 in 6): exterior / interior facets of interval and triangle meshes (immersed in half of the cases),
    # a facet-normal factor (of either side), restrictions applied, geometry lowering in three quarters of the cases --
    # where n('-') is not -n('+'), and where the sign of a 1D Jacobian matters
    focus = (not cplx) and draw(st.integers(0, 5)) == 0
    if focus:
        kind = draw(st.sampled_from(["interior", "interior", "facet"]))
    prof = {"cplx": CPLX, "cell": REAL, "facet": FACET_SURF if focus else FACET, "interior": INTERIOR_SURF if focus else INTERIOR}[kind]
    world = draw(worlds(prof))
    G = Gen(draw, world, prof)
    L = LinGen(G, cplx=cplx)
    nargs = draw(st.sampled_from([0, 1, 1, 2, 2]))
    argnames = ["a0", "a1"][:nargs]
    for n in ("a0", "a1")[nargs:]:
        world["fields"].pop(n, None)
    nint = draw(st.sampled_from([1, 1, 2, 3]))
    integrals = []
    for _ in range(nint):
        if kind == "cell" or kind == "cplx":
            it = "dx"
        elif kind == "facet":
            it = "ds" if focus else draw(st.sampled_from(["ds", "ds", "dx"]))
        else:
            it = "dS" if focus else draw(st.sampled_from(["dS", "dS", "dx"]))
        nterms = draw(st.sampled_from([1, 1, 2]))
        terms = [L.term(argnames, draw(st.integers(1, 2))) for _ in range(nterms)]
        if it == "dS":
            terms = [restrict_term(G, t) for t in terms]
        e = terms[0]
        for t in terms[1:]:
            e = ["add", e, t]
        if not cplx and (draw(st.integers(0, 2 if it != "dS" else 1)) == 0 or (focus and it != "dx")):
            # a geometric factor: every scalar cell/facet quantity meets every cell type often enough
            names = list(GEO_SCALAR_CELL) + (list(GEO_SCALAR_FACET) if it != "dx" else [])
            q = ["geo", draw(st.sampled_from(names))]
            if it != "dx" and (draw(st.integers(0, 1)) == 0 or focus):
                # a component of the facet normal (on dS: of either side)
                q = ["index", ["geo", "FacetNormal"], [draw(st.integers(0, world["gdim"] - 1))]]
            e = ["mul", ["restr", q, draw(st.sampled_from(["+", "-", "-"]))] if it == "dS" else q, e]
        integrals.append({"itype": it, "sid": draw_sid(draw), "md": draw_md(draw), "expr": e})
    geo = draw(st.booleans()) or (focus and draw(st.booleans()))
    opts = {
        "do_apply_function_pullbacks": draw(st.booleans()),
        "do_apply_integral_scaling": draw(st.booleans()),
        "do_apply_geometry_lowering": geo,
        "do_cancel_jacobian_products": geo and draw(st.integers(0, 2)) > 0,
        "do_remove_component_tensors": draw(st.booleans()),
        "do_apply_default_restrictions": draw(st.integers(0, 3)) > 0,
        "do_apply_restrictions": draw(st.integers(0, 3)) > 0 or focus,
        "do_estimate_degrees": draw(st.integers(0, 3)) > 0,
        "do_append_everywhere_integrals": draw(st.booleans()),
        "do_replace_functions": draw(st.integers(0, 3)) == 0,
        "complex_mode": cplx,
        "preserve_geometry_types": sorted(draw(st.sets(st.sampled_from(PRESERVE), max_size=2))) if geo else [],
    }
    return {"world": world, "vars": G.vars, "integrals": integrals, "options": opts, "kind": kind,
            "env_seed": draw(st.integers(0, 10**6))}


def strategy(tier):
    return cases(tier)


def scale_factor(itype, envs, side_env):
    """Measure scaling of DESIGN 7.3, from the vertices."""
    env = side_env
    geo = env.geo
    t = geo.tdim
    if itype == "dx":
        return abs(geo.detJ) * env.weight
    if t == 1:
        return 1.0
    FJ = geo.facet_jacobian(env.facet)
    return float(np.sqrt(np.linalg.det(FJ.T @ FJ))) * env.weight


def check_case(case):
    import ufl
    from ufl.algorithms import compute_form_data

    b = Builder(case["world"], case.get("vars", ()))
    integrals = case["integrals"]
    try:
        form, exprs = build_form(b, integrals)
    except RecursionError:
        raise
    except Exception as ex:
        raise Discard("build:" + type(ex).__name__)
    if form is None or not form.integrals():
        raise Discard("empty form")
    for e in exprs:
        check_acyclic(e, "input")
    o = dict(case["options"])
    o["preserve_geometry_types"] = tuple(getattr(ufl.classes, n) for n in o["preserve_geometry_types"])
    labels = ["kind:" + case["kind"]]
    try:
        fd = compute_form_data(form, **o)
    except RecursionError:
        raise
    except BaseException as ex:
        if isinstance(ex, (KeyboardInterrupt, SystemExit)) or type(ex).__name__ in ("CaseTimeout", "StopRun"):
            raise
        return {"nontrivial": False, "labels": labels + ["raised", "raised:" + exc_bucket(ex)]}
    cplx = o["complex_mode"]
    out_integrals = []  # (itype, sid tuple, integrand)
    names = {v: k for k, v in ITYPE_NAME.items()}
    for idata in fd.integral_data:
        it = names.get(idata.integral_type)
        if it is None:
            raise Violation(f"integral of type {idata.integral_type} appeared", {"kind": "new-integral-type"})
        sids = idata.subdomain_id
        for itg in idata.integrals:
            check_acyclic(itg.integrand(), "output")
            out_integrals.append((it, tuple(sids), itg.integrand()))
    # what is integrated on the cells/facets of subdomain s: explicit integrals on s + the 'everywhere' integrals
    expected = applies_to(integrals, True)
    append = o["do_append_everywhere_integrals"]
    keys = set(expected)
    for it, sids, _ in out_integrals:
        for s in sids:
            keys.add((it, s))
    order = max([derivative_depth(e) for e in exprs] + [derivative_depth(e) for _, _, e in out_integrals] + [0])
    if order > 4:
        raise Discard("derivative order > 4")
    from vf.elements import is_continuous

    nonzero = False
    for rep in range(2):
        for it in sorted({k[0] for k in keys}):
            if it == "dS":
                envs = make_two_sided(case, rep, cplx=cplx)
                side_env = envs["+"]
            else:
                envs = make_env(case, rep, facet=(it == "ds"), cplx=cplx)
                side_env = envs
            I = Interp(envs, order=order)
            I.continuous = lambda f: is_continuous(f.ufl_element()) if hasattr(f, "ufl_element") else True
            if o["do_replace_functions"]:
                for old, new in fd.function_replace_map.items():
                    I.alias[repr(new)] = old
            G = Guard(I)
            scale = scale_factor(it, envs, side_env) if o["do_apply_integral_scaling"] else 1.0
            in_vals = {}
            for k, itg in enumerate(integrals):
                if itg["itype"] == it:
                    in_vals[k] = G.value(exprs[k])
            out_vals = [(sids, eval_output(G, e)) for (it2, sids, e) in out_integrals if it2 == it]
            for key in sorted(keys, key=str):
                if key[0] != it:
                    continue
                exp = sum((in_vals[k] for k in expected.get(key, [])), 0.0) * scale
                listed = [v for sids, v in out_vals if key[1] in sids]
                got = sum(listed, 0.0)
                if key[1] != "otherwise":
                    # a numbered subdomain that the output does not list is covered by the 'otherwise' integrals;
                    # without the append option the 'otherwise' integrals are assembled everywhere in addition
                    other = sum((v for sids, v in out_vals if "otherwise" in sids), 0.0)
                    if append:
                        got = got if listed else other
                    else:
                        got = got + other
                if not close(exp, got, rtol=1e-7, atol=1e-9):
                    raise Violation(
                        f"{it} subdomain {key[1]}: scale*original {np.ravel(exp)[:3]} vs preprocessed {np.ravel(got)[:3]} "
                        f"(rel err {rel_err(exp, got):.3g}); options {[k for k, v in o.items() if v is True]}",
                        {"kind": "value", "itype": it})
                nonzero |= bool(np.any(np.abs(np.asarray(exp)) > 1e-12))
    lowering = any(o[k] for k in ("do_apply_function_pullbacks", "do_apply_integral_scaling", "do_apply_geometry_lowering"))
    allops = set()
    for itg in integrals:
        allops |= ops_in(itg["expr"])
    for v in case.get("vars", ()):
        allops |= ops_in(v)
    piola = any(f.get("elem") and f["elem"][0] not in ("P", "DG", "Real") for f in case["world"]["fields"].values())
    interesting = piola or bool(allops & {"grad", "divop", "curl", "nabla_grad", "nabla_div", "dx", "Dn", "geo", "x"})
    labels += ["processed"] + ["itype:" + it for it in sorted({i["itype"] for i in integrals})]
    labels += ["opt:" + n for n, k in (("pullbacks", "do_apply_function_pullbacks"), ("scaling", "do_apply_integral_scaling"),
                                       ("geometry", "do_apply_geometry_lowering"), ("cancel", "do_cancel_jacobian_products"),
                                       ("rct", "do_remove_component_tensors"), ("replace", "do_replace_functions"),
                                       ("complex", "complex_mode")) if o[k]]
    w = case["world"]
    if w["gdim"] > TDIM[w["cell"]]:
        labels.append("manifold")
    labels.append("nargs:%d" % sum(1 for f in w["fields"].values() if f["kind"] == "arg"))
    return {"nontrivial": nonzero and lowering and interesting, "labels": labels}

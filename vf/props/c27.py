"""C27 Algorithms never mutate their inputs.

A pool of expressions and forms (integrals share Measure objects and user-owned metadata dicts; some metadata already
carry an estimated degree) is put through a generated sequence of public algorithms and operators; results are added to
the pool, so that later steps work on objects that share sub-objects and dicts with earlier ones.  After every step,
for every pool member, the snapshot taken when it entered the pool must be unchanged:

   repr, hash, own structural key of every integrand, integral types / subdomain ids, a deep copy of every integral's
   metadata, and -- computed afresh from a re-assembled Form so that caches cannot hide a change -- signature,
   arguments and coefficients;  plus deep copies of the user's own metadata dict objects.
Exceptions raised by a step are irrelevant here (the step just does not produce a result).
"""

import copy

import numpy as np
from hypothesis import strategies as st

from vf.common import Discard, Violation
from vf.forms import LinGen, decode_md
from vf.gen import Gen, Profile, worlds
from vf.props.c19 import CyclicDAG, Keys

LEVEL = "exploration"
RULE = (
    "Hypothesis: worlds on interval/triangle/tetrahedron/quadrilateral (affine and degree-2 geometry) with the element "
    "zoo; pools of 2-3 forms (1-3 integrals over dx/ds/dS sharing measures and metadata dicts, with arguments) and 1-2 "
    "expressions; 4-14 steps drawn from ~45 operations (compute_form_data with random options, every apply_* pass, "
    "attach_estimated_degrees, group_form_integrals, derivative, action, adjoint, lhs/rhs, replace, extract_blocks, "
    "signature, ==, hash, str, degree estimation, arity check, form algebra, expression constructors such as abs(abs(e)), "
    "conj, indexing, variable/diff), each applied to a random pool member, results pooled. non-trivial = at least 4 steps "
    "succeeded, one of them on a result of an earlier step, and some member has non-empty metadata; distinct = distinct "
    "(pool, step sequence)."
)
ASSUMPTIONS = ["own structural key + deep copies define 'unchanged'; signatures/arguments are recomputed from a re-assembled Form"]
BUDGET = {"quick": {"examples": 1200, "seconds": 75}, "thorough": {"examples": 40000, "seconds": 1500}}
LABEL_FLOORS = {"quick": {"chained": 500, "metadata": 500, "nonaffine": 150}}
CASE_TIMEOUT = {"quick": 30, "thorough": 90}

OPS_E = {"arith", "math", "cond", "index", "tensor", "compound", "deriv", "pow", "abs", "var", "sign"}
PROF = Profile(ops=OPS_E, leaves={"coef", "const", "lit", "x", "geo", "eye"}, max_rank=2, elements="all", manifolds=True,
               args=((0, "any"), (1, "any")))
FORM_STEPS = ["cfd", "cfd", "cfd_scaled", "cfd_complex", "expand_derivatives", "lowering", "derivatives", "pullbacks", "scaling",
              "scaling", "geometry", "attach_degrees", "attach_degrees", "group", "restrictions", "derivative", "action", "adjoint",
              "lhs", "rhs", "replace", "blocks", "signature", "eq", "hash", "str", "degree", "arity", "scale2", "addself", "neg",
              "renumber", "rct", "rcn", "integral_data"]
EXPR_STEPS = ["pow1", "powpow", "abs", "absabs", "conj", "real", "index0", "neg", "addself", "mul2", "T", "grad", "expand_derivatives", "lowering",
              "derivatives", "replace", "eq", "hash", "str", "sorted", "variable", "diff", "degree", "rct", "renumber"]
MDS = [{}, {"quadrature_degree": 2}, {"quadrature_degree": 3, "scheme": "default"}, {"estimated_polynomial_degree": 2},
       {"quadrature_degree": 2, "estimated_polynomial_degree": 5}, {"w": {"__array__": [5, 1, None, 0]}},
       # list / nested values (a custom quadrature rule handed over as python lists)
       {"quadrature_rule": "custom", "points": [[0.25, 0.25], [0.5, 0.25]], "weights": [0.16666666666666666, 0.3333333333333333]},
       {"opts": {"levels": [1, 2, 3], "tol": 0.1234567890123}, "tags": ["a", "b"]}]


@st.composite
def cases(draw, tier):
    cell = draw(st.sampled_from(["interval", "triangle", "triangle", "tetrahedron", "quadrilateral"]))
    prof = Profile(ops=OPS_E, leaves=PROF.leaves, max_rank=2, elements="all", manifolds=(cell != "quadrilateral"), cells=(cell,),
                   args=((0, "any"), (1, "any")))
    world = draw(worlds(prof))
    world["coord_degree"] = draw(st.sampled_from([1, 1, 2]))
    G = Gen(draw, world, prof)
    L = LinGen(G)
    nmeasures = draw(st.integers(1, 3))
    measures = [{"itype": draw(st.sampled_from(["dx", "dx", "ds", "dS"])), "md": draw(st.sampled_from(MDS))} for _ in range(nmeasures)]
    forms = []
    for _ in range(draw(st.integers(2, 3))):
        nargs = draw(st.sampled_from([0, 1, 2, 2]))
        integrals = []
        for _ in range(draw(st.integers(1, 3))):
            m = draw(st.integers(0, nmeasures - 1))
            t = L.term(["a0", "a1"][:nargs], draw(st.integers(1, 2)))
            if measures[m]["itype"] == "dS":
                t = ["restr", t, draw(st.sampled_from(["+", "-"]))]
            integrals.append({"measure": m, "sid": draw(st.sampled_from([None, None, 1, 2])), "expr": t})
        forms.append(integrals)
    g = world["gdim"]
    exprs = [G.expr(draw(st.sampled_from([(), (), (g,), (g, g)])), (), draw(st.integers(1, 3))) for _ in range(draw(st.integers(1, 2)))]
    steps = [[draw(st.sampled_from(["form", "form", "expr"])), draw(st.integers(0, 40)), draw(st.integers(0, 9)), draw(st.integers(0, 9))]
             for _ in range(draw(st.integers(4, 14)))]
    return {"world": world, "vars": G.vars, "measures": measures, "forms": forms, "exprs": exprs, "steps": steps,
            "opt_seed": draw(st.integers(0, 10**6))}


def strategy(tier):
    return cases(tier)


class Snap:
    def __init__(self, obj, K):
        self.obj = obj
        self.K = K
        try:
            self.data = self.take()
        except (RecursionError, CyclicDAG):
            raise Violation("a result contains itself: an operator re-initialised one of its operands in place", {"kind": "mutated:cycle"})

    def take(self):
        import ufl

        o = self.obj
        if isinstance(o, ufl.Form):
            fresh = ufl.Form(list(o.integrals()))
            try:
                sig = fresh.signature()
            except Exception:
                sig = None
            return ("form", repr(o), hash(o),
                    tuple((i.integral_type(), str(i.subdomain_id()), self.K.key(i.integrand()), repr(_freeze(i.metadata()))) for i in o.integrals()),
                    sig, tuple(map(repr, fresh.arguments())), tuple(map(repr, fresh.coefficients())))
        return ("expr", repr(o), hash(o), self.K.key(o), str(o.ufl_shape), str(o.ufl_free_indices))

    def check(self, after):
        try:
            now = self.take()
        except (RecursionError, CyclicDAG):
            raise Violation(f"an input can no longer be traversed after step '{after}' (its DAG has become cyclic)",
                            {"kind": "mutated:cycle", "step": after})
        if now != self.data:
            names = ["kind", "repr", "hash", "integrals (type, ids, integrand structure, metadata)", "signature", "arguments", "coefficients"] \
                if now[0] == "form" else ["kind", "repr", "hash", "structure", "shape", "free indices"]
            which = [n for n, a, b in zip(names, now, self.data) if a != b]
            raise Violation(f"{', '.join(which)} of an input changed after step '{after}'", {"kind": "mutated:" + which[0].split(" ")[0], "step": after})


def _freeze(md):
    if isinstance(md, dict):
        return tuple(sorted((k, _freeze(v)) for k, v in md.items()))
    if isinstance(md, (list, tuple)):
        return (type(md).__name__,) + tuple(_freeze(v) for v in md)
    if isinstance(md, np.ndarray):
        return ("array", md.shape, md.tobytes())
    return md


def check_case(case):
    import ufl
    from ufl import algorithms as alg
    from ufl.algorithms.apply_algebra_lowering import apply_algebra_lowering
    from ufl.algorithms.apply_derivatives import apply_derivatives
    from ufl.algorithms.apply_function_pullbacks import apply_function_pullbacks
    from ufl.algorithms.apply_geometry_lowering import apply_geometry_lowering
    from ufl.algorithms.apply_integral_scaling import apply_integral_scaling
    from ufl.algorithms.apply_restrictions import apply_restrictions
    from ufl.algorithms.check_arities import check_form_arity
    from ufl.algorithms.compute_form_data import attach_estimated_degrees
    from ufl.algorithms.domain_analysis import build_integral_data, group_form_integrals
    from ufl.algorithms.estimate_degrees import estimate_total_polynomial_degree
    from ufl.algorithms.remove_complex_nodes import remove_complex_nodes
    from ufl.algorithms.remove_component_tensors import remove_component_tensors
    from ufl.algorithms.renumbering import renumber_indices
    from ufl.sorting import sorted_expr

    from vf.build import Builder
    from vf.elements import coordinate_element

    w = case["world"]

    class B(Builder):
        def mk_mesh(self, k):
            return ufl.Mesh(coordinate_element(self.cell, self.g, w.get("coord_degree", 1)))

    try:
        b = B(w, case.get("vars", ()))
        user_mds = [decode_md(m["md"]) for m in case["measures"]]
        measures = [ufl.Measure(m["itype"], domain=b.mesh, metadata=md) for m, md in zip(case["measures"], user_mds)]
        forms = []
        for integrals in case["forms"]:
            f = None
            for itg in integrals:
                e = ufl.as_ufl(b.build(itg["expr"]))
                M = measures[itg["measure"]]
                term = e * (M if itg["sid"] is None else M(itg["sid"]))
                f = term if f is None else f + term
            if f is not None and f.integrals():
                forms.append(f)
        exprs = [ufl.as_ufl(b.build(r)) for r in case["exprs"]]
    except RecursionError:
        # expressions of this size are far from the recursion limit: a constructor returned an operand after
        # re-initialising it in place, which makes that operand contain itself
        raise Violation("building the pool recursed without end: a constructor produced a node that contains itself",
                        {"kind": "mutated:cycle"})
    except Exception as ex:
        raise Discard("build:" + type(ex).__name__)
    if not forms:
        raise Discard("no form")
    md_copies = copy.deepcopy(user_mds)
    K = Keys()
    pool_f = list(forms)
    pool_e = list(exprs)
    snaps = [Snap(o, K) for o in pool_f + pool_e]
    origin = {id(o): 0 for o in pool_f + pool_e}  # generation: 0 = built by the harness
    rng = np.random.default_rng(case["opt_seed"])
    coefs = [f for f in b.fields.values() if isinstance(f, ufl.Coefficient)]
    done = 0
    chained = False

    def add(o):
        from vf.interp import is_acyclic

        if isinstance(o, ufl.classes.Expr) and not is_acyclic(o):
            raise Violation("a constructor returned a cyclic DAG: it re-initialised one of its operands in place",
                            {"kind": "mutated:cycle"})
        if isinstance(o, ufl.Form):
            if o.integrals() and len(pool_f) < 8:
                pool_f.append(o)
                snaps.append(Snap(o, K))
                origin[id(o)] = 1
        elif isinstance(o, ufl.classes.Expr) and len(pool_e) < 8:
            pool_e.append(o)
            snaps.append(Snap(o, K))
            origin[id(o)] = 1

    for kind, s_, i_, j_ in case["steps"]:
        if kind == "form" or not pool_e:
            name = FORM_STEPS[s_ % len(FORM_STEPS)]
            f = pool_f[i_ % len(pool_f)]
            g_ = pool_f[j_ % len(pool_f)]
            try:
                r = None
                if name.startswith("cfd"):
                    opts = dict(do_apply_function_pullbacks=bool(rng.integers(0, 2)), do_apply_integral_scaling=bool(rng.integers(0, 2)) or name == "cfd_scaled",
                                do_apply_geometry_lowering=bool(rng.integers(0, 2)), do_estimate_degrees=bool(rng.integers(0, 4)),
                                do_append_everywhere_integrals=bool(rng.integers(0, 2)), do_replace_functions=bool(rng.integers(0, 2)),
                                do_remove_component_tensors=bool(rng.integers(0, 2)), complex_mode=(name == "cfd_complex"))
                    fd = alg.compute_form_data(f, **opts)
                    for idata in fd.integral_data:
                        for itg in idata.integrals:
                            itg.metadata()
                    r = fd.preprocessed_form if hasattr(fd, "preprocessed_form") else None
                elif name == "expand_derivatives":
                    r = alg.expand_derivatives(f)
                elif name == "lowering":
                    r = apply_algebra_lowering(f)
                elif name == "derivatives":
                    r = apply_derivatives(apply_algebra_lowering(f))
                elif name == "pullbacks":
                    r = apply_function_pullbacks(apply_derivatives(apply_algebra_lowering(f)))
                elif name == "scaling":
                    r = apply_integral_scaling(f)
                elif name == "geometry":
                    r = apply_geometry_lowering(f)
                elif name == "attach_degrees":
                    r = attach_estimated_degrees(f)
                elif name == "group":
                    r = group_form_integrals(f, f.ufl_domains(), do_append_everywhere_integrals=bool(rng.integers(0, 2)))
                elif name == "integral_data":
                    build_integral_data(group_form_integrals(f, f.ufl_domains()).integrals())
                elif name == "restrictions":
                    r = ufl.Form([apply_restrictions(itg) for itg in apply_derivatives(apply_algebra_lowering(f)).integrals()])
                elif name == "derivative":
                    cs = f.coefficients()
                    if cs:
                        r = ufl.derivative(f, cs[int(rng.integers(0, len(cs)))])
                elif name == "action":
                    r = ufl.action(f)
                elif name == "adjoint":
                    r = ufl.adjoint(f)
                elif name == "lhs":
                    r = ufl.lhs(f)
                elif name == "rhs":
                    r = ufl.rhs(f)
                elif name == "replace":
                    cs = f.coefficients()
                    if cs:
                        c = cs[int(rng.integers(0, len(cs)))]
                        r = ufl.replace(f, {c: ufl.Coefficient(c.ufl_function_space())})
                elif name == "blocks":
                    ufl.extract_blocks(f)
                elif name == "signature":
                    f.signature()
                elif name == "eq":
                    bool(f == g_), f.equals(g_)
                elif name == "hash":
                    hash(f)
                    {f: 1, g_: 2}
                elif name == "str":
                    str(f), repr(f)
                elif name == "degree":
                    estimate_total_polynomial_degree(f)
                elif name == "arity":
                    check_form_arity(apply_derivatives(apply_algebra_lowering(f)), f.arguments())
                elif name == "scale2":
                    r = 2 * f
                elif name == "addself":
                    r = f + g_
                elif name == "neg":
                    r = -f
                elif name == "renumber":
                    r = renumber_indices(f)
                elif name == "rct":
                    r = remove_component_tensors(f)
                elif name == "rcn":
                    r = remove_complex_nodes(f)
                done += 1
                if origin.get(id(f), 0) == 1:
                    chained = True
                if r is not None:
                    add(r)
            except Violation:
                raise
            except RecursionError:
                # expressions of this size are far from the recursion limit: the step met (or made) a node that
                # contains itself.  Blame an input if one has become cyclic, otherwise the step itself.
                for s__ in snaps:
                    s__.check(name)
                raise Violation(f"step '{name}' recursed without end: it produced a node that contains itself", {"kind": "mutated:cycle", "step": name})
            except BaseException as ex:
                if type(ex).__name__ in ("CaseTimeout", "StopRun", "KeyboardInterrupt"):
                    raise
        else:
            name = EXPR_STEPS[s_ % len(EXPR_STEPS)]
            e = pool_e[i_ % len(pool_e)]
            e2 = pool_e[j_ % len(pool_e)]
            try:
                r = None
                if name == "pow1":
                    # trivial exponents: e**1, (e**2)**1, e**0 * e
                    s0 = e if not e.ufl_shape else e[(0,) * len(e.ufl_shape)]
                    r = (s0 ** 2) ** 1 + s0 ** 1 if not s0.ufl_free_indices else None
                elif name == "powpow":
                    # a power of a power and its derivative (the power rule builds f**(n-1) with n-1 == 1)
                    s0 = e if not e.ufl_shape else e[(0,) * len(e.ufl_shape)]
                    if not s0.ufl_free_indices:
                        v_ = ufl.variable(s0)
                        r = expand_derivatives(ufl.diff((v_ ** 2) ** 2, v_))
                elif name == "abs":
                    r = abs(e)
                elif name == "absabs":
                    r = abs(abs(e))
                elif name == "conj":
                    r = ufl.conj(ufl.conj(e))
                elif name == "real":
                    r = ufl.real(ufl.imag(e))
                elif name == "index0":
                    r = e[(0,) * len(e.ufl_shape)] if e.ufl_shape else e
                elif name == "neg":
                    r = -e
                elif name == "addself":
                    r = e + e2
                elif name == "mul2":
                    r = 2 * e * 3
                elif name == "T":
                    r = e.T
                elif name == "grad":
                    r = ufl.grad(e)
                elif name == "expand_derivatives":
                    r = alg.expand_derivatives(e)
                elif name == "lowering":
                    r = apply_algebra_lowering(e)
                elif name == "derivatives":
                    r = apply_derivatives(apply_algebra_lowering(e))
                elif name == "replace":
                    c = coefs[int(rng.integers(0, len(coefs)))]
                    r = ufl.replace(e, {c: 2 * c})
                elif name == "eq":
                    bool(e == e2), bool(e != e2)
                elif name == "hash":
                    {e: 1, e2: 2}
                elif name == "str":
                    str(e), repr(e)
                elif name == "sorted":
                    sorted_expr(list(pool_e))
                elif name == "variable":
                    r = ufl.variable(e)
                elif name == "diff":
                    v = ufl.variable(coefs[0])
                    r = ufl.diff(e * v, v) if not e.ufl_free_indices else None
                elif name == "degree":
                    estimate_total_polynomial_degree(e)
                elif name == "rct":
                    r = remove_component_tensors(e)
                elif name == "renumber":
                    r = renumber_indices(e)
                done += 1
                if origin.get(id(e), 0) == 1:
                    chained = True
                if r is not None:
                    add(r)
            except Violation:
                raise
            except RecursionError:
                # expressions of this size are far from the recursion limit: the step met (or made) a node that
                # contains itself.  Blame an input if one has become cyclic, otherwise the step itself.
                for s__ in snaps:
                    s__.check(name)
                raise Violation(f"step '{name}' recursed without end: it produced a node that contains itself", {"kind": "mutated:cycle", "step": name})
            except BaseException as ex:
                if type(ex).__name__ in ("CaseTimeout", "StopRun", "KeyboardInterrupt"):
                    raise
        for s in snaps:
            s.check(name)
        for md, cp in zip(user_mds, md_copies):
            if _freeze(md) != _freeze(cp):
                raise Violation(f"a metadata dict owned by the caller was modified by step '{name}'", {"kind": "mutated:user-metadata", "step": name})
    labels = []
    if chained:
        labels.append("chained")
    if any(md for md in user_mds):
        labels.append("metadata")
    if w["cell"] == "quadrilateral" or w.get("coord_degree", 1) > 1:
        labels.append("nonaffine")
    return {"nontrivial": done >= 4 and chained and any(md for md in user_mds), "labels": labels}

"""C05 Operators build expressions with the mathematically intended value.

Oracle: L1 -- the value/shape/free indices of the *recipe* computed on labelled numpy tensors (vf/model.py, never
sees a ufl node, so construction-time simplifications cannot influence it) == L2 -- the reference interpreter's
value of the expression ufl actually built; plus DAG invariants of every built node.
"""

import numpy as np
from hypothesis import strategies as st

from vf.build import Builder
from vf.common import Discard, Violation
from vf.gen import Gen, Profile, ops_in, worlds
from vf.interp import Interp, Unsupported, close
from vf.model import Model, ModelError
from vf.props.valuecommon import Guard, exc_bucket, make_env, make_two_sided, rel_err, warmup  # noqa: F401

LEVEL = "exploration"
RULE = (
    "Hypothesis recipes over the public operator language without differentiation: arithmetic with python numbers and "
    "ufl literals, zeros with and without free indices, identity, indexing with ints/indices/slices/ellipsis incl. "
    "repeated indices, as_tensor by list and by indices, rows/entries of one tensor in and out of order, component "
    "tensors over permuted indices, conditionals and logical conditions, math/Bessel functions incl. constant folding, "
    "tensor algebra, abs/conj/real/imag towers, restrictions (two-sided environment); real and complex data. "
    "non-trivial = the recipe contains an operand pattern that a constructor shortcut tests for (zero/one/literal "
    "operand, index of a list/component tensor, list of indexed rows, component tensor of an indexed tensor, nested "
    "abs/conj/real/imag, transposed twice, ...); distinct = distinct recipe."
)
ASSUMPTIONS = [
    "L1 model semantics (textbook definitions; inner(a,b)=a:conj(b), outer(a,b)=conj(a) x b, dot without conjugation)",
    "terminal values come from the interpreter's environment; ill-conditioned points discarded",
]
BUDGET = {"quick": {"examples": 12000, "seconds": 60}, "thorough": {"examples": 400000, "seconds": 1500}}

OPS = {"arith", "math", "cond", "index", "tensor", "compound", "pow", "abs", "sign", "math2", "bessel", "shortcut", "capture",
       "eqne", "logic", "pylit", "absfree", "powx", "oddshape", "elem"}
REAL = Profile(ops=OPS, leaves={"coef", "const", "lit", "zero", "eye", "x", "perm"}, max_rank=3, elements="all", manifolds=True)
CPLX = Profile(ops=(OPS - {"sign", "cond", "bessel", "math2", "logic", "eqne"}) | {"complexops"}, cplx=True,
               leaves={"coef", "const", "lit", "zero", "eye"}, max_rank=3, elements="lagrange", manifolds=False)
INTERIOR = Profile(ops=OPS | {"restr", "jumpavg"}, leaves={"coef", "const", "lit", "zero", "eye", "x", "n"}, max_rank=2,
                   elements="all", interior=True, facet=True)


@st.composite
def cases(draw, tier):
    mode = draw(st.sampled_from(["real", "real", "real", "cplx", "interior"]))
    prof = {"real": REAL, "cplx": CPLX, "interior": INTERIOR}[mode]
    world = draw(worlds(prof))
    G = Gen(draw, world, prof)
    g = world["gdim"]
    sh = draw(st.sampled_from([(), (), (g,), (g, g), (g, g, g), (2, 3), (3, 2), (1, 3), (4,), (3, 1)]))
    nfree = draw(st.integers(0, 2)) if len(sh) < 2 else draw(st.integers(0, 1))
    if any(s != g for s in sh):
        nfree = 0
    free = tuple(G.names[:nfree])
    e = G.expr(sh, free, draw(st.integers(1, 4)))
    return {"world": world, "expr": e, "vars": G.vars, "mode": mode, "env_seed": draw(st.integers(0, 10**6))}


def strategy(tier):
    return cases(tier)


SIMPLE = {"zero", "eye", "pylit"}


def interesting(r, parent=None):
    """does the recipe contain an operand pattern a constructor shortcut looks for?"""
    if not isinstance(r, list) or not r:
        return False
    op = r[0] if isinstance(r[0], str) else None
    if op in SIMPLE:
        return True
    if op == "lit":
        return True
    if op == "index" and isinstance(r[1], list) and r[1] and r[1][0] in ("list", "as_tensor", "index", "zero", "eye", "T", "mul"):
        return True
    if op == "list" and any(isinstance(x, list) and x and x[0] in ("index", "as_tensor", "zero") for x in r[1]):
        return True
    if op == "as_tensor" and isinstance(r[1], list) and r[1][0] in ("index", "mul"):
        return True
    if op in ("abs", "conj", "real", "imag", "T", "neg") and isinstance(r[1], list) and r[1] and r[1][0] in ("abs", "conj", "real", "imag", "T", "neg"):
        return True
    return any(interesting(x, op) for x in r[1:])


def invariants(e):
    from ufl.core.expr import Expr
    from ufl.corealg.traversal import unique_pre_traversal

    from vf.interp import is_acyclic

    if not is_acyclic(e):
        raise Violation("built expression DAG contains a cycle", {"kind": "cycle"})
    from ufl.classes import MultiIndex

    for n in unique_pre_traversal(e):
        if isinstance(n, MultiIndex):
            continue
        fi = tuple(n.ufl_free_indices)
        if list(fi) != sorted(set(fi)):
            raise Violation(f"{type(n).__name__}: free indices {fi} not sorted/unique", {"kind": "free-index-invariant"})
        if len(n.ufl_index_dimensions) != len(fi):
            raise Violation(f"{type(n).__name__}: index dimensions inconsistent", {"kind": "free-index-invariant"})
        if not all(isinstance(d, int) and d >= 0 for d in n.ufl_shape):
            raise Violation(f"{type(n).__name__}: bad shape {n.ufl_shape}", {"kind": "shape-invariant"})
        for o in n.ufl_operands:
            if not isinstance(o, Expr):
                raise Violation(f"{type(n).__name__} has a non-Expr operand {type(o).__name__}", {"kind": "operand-invariant"})


def check_case(case):
    import ufl
    from ufl.core.expr import Expr

    b = Builder(case["world"], case.get("vars", ()))
    cplx = case["mode"] == "cplx"
    interior = case["mode"] == "interior"
    # ---- L1 first: it decides whether the program is well-typed and well-conditioned
    envs = make_two_sided(case, 0, cplx=cplx) if interior else make_env(case, 0, facet=True, cplx=cplx)
    I = Interp(envs)
    if interior:
        from vf.elements import is_continuous

        I.continuous = lambda f: is_continuous(f.ufl_element()) if hasattr(f, "ufl_element") else True

    def leaf(kind, name, side):
        if kind == "fld":
            t = b.fields[name]
        elif kind == "x":
            t = b.x
        else:
            t = getattr(ufl.classes, name)(b.mesh)
        try:
            return I.value(t, side)
        except Unsupported as ex:
            raise Discard("unsupported:" + str(ex)[:30])

    M = Model(leaf, case.get("vars", ()))
    try:
        with np.errstate(all="ignore"):
            mv, ml = M.ev(case["expr"])
    except ModelError as ex:
        raise Discard("model:" + str(ex)[:40])
    except np.linalg.LinAlgError:
        raise Discard("illcond:singular")
    if not np.all(np.isfinite(mv)):
        raise Discard("illcond:nonfinite")
    if getattr(M, "min_den", np.inf) < 1e-3 or getattr(M, "margin", np.inf) < 1e-7 or getattr(M, "max_cond", 0) > 1e5:
        raise Discard("illcond:model_guard")
    if np.max(np.abs(mv), initial=0) > 1e8:
        raise Discard("illcond:huge")
    # ---- build with ufl
    try:
        e = b.build(case["expr"])
    except RecursionError:
        raise Violation("construction recursed without end: a constructor produced a node that contains itself", {"kind": "cycle"})
    except Exception as ex:
        if isinstance(ex, ValueError) and "math domain error" in str(ex):
            # constant folding of ln/sqrt/acos/... of a *real* literal outside the real domain (ln(0.5 + (-2j)**2) is
            # ln(-3.5) once the literal has collapsed to a real): undefined as a real function, not generated on purpose
            raise Discard("undefined: real literal outside the domain of a math function")
        if isinstance(ex, ValueError) and "Not expecting free indices" in str(ex):
            # the explicit refusal of the operators that are defined for index-free operands only
            raise Discard("refused: free indices in an index-free operator")
        # the model accepted this program: the public constructor must accept it too
        raise Violation(f"constructor raised {type(ex).__name__}: {str(ex)[:300]}", {"kind": "raised:" + exc_bucket(ex)})
    if not isinstance(e, Expr):
        if isinstance(e, (int, float, complex)):
            e = ufl.as_ufl(e)
        else:
            raise Violation(f"constructor returned {type(e).__name__}", {"kind": "non-expr"})
    invariants(e)
    exp_fi = tuple(b.idx[n].count() for n in ml)
    exp_shape = mv.shape[: mv.ndim - len(ml)]
    if tuple(e.ufl_shape) != tuple(exp_shape):
        raise Violation(f"shape {e.ufl_shape}, expected {exp_shape}", {"kind": "shape"})
    if tuple(e.ufl_free_indices) != exp_fi:
        raise Violation(f"free indices {e.ufl_free_indices}, expected {exp_fi} ({ml})", {"kind": "free-indices"})
    if tuple(e.ufl_index_dimensions) != tuple(mv.shape[mv.ndim - len(ml):]):
        raise Violation(f"index dimensions {e.ufl_index_dimensions}, expected {mv.shape[mv.ndim - len(ml):]}", {"kind": "index-dimensions"})
    G = Guard(I)
    try:
        v = G.value(e)
    except Discard:
        raise
    except (AssertionError, ValueError, IndexError, KeyError, TypeError) as ex:
        raise Violation(f"built expression cannot be evaluated ({type(ex).__name__}: {str(ex)[:200]})", {"kind": "malformed"})
    if not close(mv, v, rtol=1e-8, atol=1e-10):
        raise Violation(f"value: model {np.ravel(mv)[:4]} vs built expression {np.ravel(v)[:4]} (rel err {rel_err(mv, v):.3g})",
                        {"kind": "value"})
    return {"nontrivial": interesting(case["expr"]), "labels": ["mode:" + case["mode"], "rank:%d" % len(exp_shape), "free:%d" % len(ml)]}

"""C17 Restriction propagation preserves two-sided integrands.

Input: interior-facet integrands (after algebra lowering and derivative expansion, as apply_restrictions assumes),
with restrictions at arbitrary depth.  An own traversal of the *input* DAG classifies every terminal occurrence by the
number of Restricted nodes above it; from that the harness decides what the statement demands:

  * some Restricted inside a Restricted                                  -> must raise
  * a side-dependent terminal (argument, non-H1 coefficient, gradient tower, cell geometry, facet normal) that is
    reachable without a restriction, while default restrictions are checked -> must raise
  * otherwise: must succeed, the value on a pair of cells sharing a facet (H1 fields share their trace, x is common,
    n- = -n+) must be unchanged, and in the result restrictions wrap only terminal towers, never nest, and every
    side-dependent terminal is wrapped exactly once.
"""

import numpy as np
from hypothesis import strategies as st

from vf.common import Discard, Violation
from vf.forms import LinGen
from vf.gen import Gen, Profile, ops_in, worlds
from vf.interp import Interp, close, derivative_depth
from vf.props.valuecommon import warmup  # noqa: F401
from vf.props.valuecommon import Guard, build_case, check_acyclic, eval_output, exc_bucket, make_two_sided, rel_err, same_type

LEVEL = "exploration"
RULE = (
    "Hypothesis recipes of interior-facet integrands on flat interval/triangle/tetrahedron meshes over H1, DG, Piola "
    "and Real coefficients, arguments, constants, x, facet normal, cell and facet geometry, gradients up to order 2, "
    "variables, conditionals, index notation: either restriction-free expressions wrapped at the root by (+), (-), "
    "jump, avg or products of differently restricted factors, or expressions with restrictions drawn at arbitrary "
    "depth (many of them invalid on purpose: unrestricted discontinuous terminals, nested restrictions). Each case runs "
    "with default restrictions checked ('+') or with pure propagation (None), directly or (scalar integrands) through "
    "compute_form_data with the measures dS, dS_h, dS_v. non-trivial = a valid program with at "
    "least one restriction above a non-terminal that was accepted and compared, or an invalid program (must raise); "
    "distinct = distinct (recipe, mode)."
)
ASSUMPTIONS = [
    "two-sided environment of DESIGN 2.3: flat mesh, '-' cell with permuted local numbering, H1 fields = one physical "
    "polynomial with a kink across the facet, other fields independent per side",
    "side-dependent terminals per the property statement: arguments, non-H1 coefficients, derivative towers, cell "
    "geometry and the facet normal",
]
BUDGET = {"quick": {"examples": 5000, "seconds": 70}, "thorough": {"examples": 160000, "seconds": 1500}}
LABEL_FLOORS = {"quick": {"valid": 1200, "invalid:missing": 150, "invalid:double": 40, "mode:default": 1000, "mode:propagate": 400}}

OPS = {"arith", "math", "cond", "index", "tensor", "compound", "deriv", "pow", "abs", "var", "sign"}
PLAIN = Profile(ops=OPS - {"restr"}, leaves={"coef", "const", "lit", "x", "geo", "zero", "eye", "n"}, max_rank=2, elements="all",
                interior=True, facet=True, manifolds=True, args=((0, "any"),))
RESTR = Profile(ops=OPS | {"restr"}, leaves={"coef", "const", "lit", "x", "geo", "zero", "eye", "n"}, max_rank=2,
                elements="all", interior=True, facet=True, manifolds=True, args=((0, "any"),), weights={"restr": 3})


@st.composite
def cases(draw, tier):
    style = draw(st.sampled_from(["root", "root", "root", "deep", "deep"]))
    prof = PLAIN if style == "root" else RESTR
    world = draw(worlds(prof))
    G = Gen(draw, world, prof)
    L = LinGen(G)
    witharg = draw(st.booleans())
    if not witharg:
        world["fields"].pop("a0", None)

    def term():
        return L.term(["a0"] if witharg else [], draw(st.integers(1, 2)))

    if style == "root":
        k = draw(st.sampled_from(["+", "-", "jump", "avg", "mixed", "mixed", "sum"]))
        t = term()
        if k in ("+", "-"):
            e = ["restr", t, k]
        elif k in ("jump", "avg"):
            e = [k, t]
        elif k == "mixed":
            e = ["mul", ["restr", t, draw(st.sampled_from(["+", "-"]))], ["restr", G.expr((), (), 2), draw(st.sampled_from(["+", "-"]))]]
            if draw(st.booleans()):
                # an unrestricted continuous / side-independent factor
                e = ["mul", e, draw(st.sampled_from([["fld", "c0"], ["index", ["x"], [0]], ["geo", "FacetArea"], ["lit", 2.5]]))]
        else:
            e = ["add", ["restr", t, "+"], ["restr", term(), "-"]]
    else:
        e = term()
        if draw(st.integers(0, 2)) == 0:
            e = ["restr", e, draw(st.sampled_from(["+", "-"]))]
    lower = draw(st.integers(0, 3)) == 0
    # a third of the (unlowered) cases go through compute_form_data, the caller of the propagation, with one of the
    # interior-facet measures (dS and the extruded-mesh dS_h / dS_v)
    via = None if lower else draw(st.sampled_from([None, None, None, "dS", "dS_h", "dS_v"]))
    return {"world": world, "expr": e, "vars": G.vars, "style": style, "lower": lower, "via": via,
            "mode": draw(st.sampled_from(["default", "default", "propagate"])), "env_seed": draw(st.integers(0, 10**6))}


def strategy(tier):
    return cases(tier)


def _in_h1(f):
    from vf.elements import is_continuous

    return is_continuous(f.ufl_element())


MISSING_ITEMS = set()  # what the last classify() call found unrestricted (type names; 'tower:<terminal type>')


def classify(e):
    """Own traversal: (has_double, has_missing_side_dependent, restriction_above_nonterminal)."""
    from ufl.classes import (Argument, Coefficient, Constant, ConstantValue, FacetNormal, GeometricCellQuantity,
                             GeometricFacetQuantity, Grad, Label, MultiIndex, ReferenceGrad, ReferenceValue, Restricted,
                             SpatialCoordinate)

    double = missing = above = False
    MISSING_ITEMS.clear()
    seen = set()
    stack = [(e, 0, False)]
    while stack:
        n, k, in_tower = stack.pop()
        key = (id(n), k, in_tower)
        if key in seen:
            continue
        seen.add(key)
        if isinstance(n, Restricted):
            if k >= 1:
                double = True
            if not (n.ufl_operands[0]._ufl_is_terminal_):
                above = True
            stack.append((n.ufl_operands[0], k + 1, False))
            continue
        if isinstance(n, (Grad, ReferenceGrad)):
            # a derivative tower is side dependent whatever it differentiates; the restriction may sit anywhere
            # between the derivative nodes and the terminal (ReferenceGrad(x('+')) is how the pipeline writes it)
            o, inside = n, 0
            while isinstance(o, (Grad, ReferenceGrad, ReferenceValue, Restricted)):
                if isinstance(o, Restricted):
                    inside += 1
                o = o.ufl_operands[0]
            if o._ufl_is_terminal_:
                if isinstance(o, (ConstantValue, Constant)):
                    continue
                if k + inside == 0:
                    missing = True
                    MISSING_ITEMS.add("tower:" + type(o).__name__)
                if k + inside >= 2:
                    double = True
                continue
            if k == 0:
                missing = True
                MISSING_ITEMS.add("tower:operator")
            stack.append((n.ufl_operands[0], max(k, 1), True))
            continue
        if n._ufl_is_terminal_:
            if in_tower or isinstance(n, (MultiIndex, Label, ConstantValue, Constant)):
                continue
            if isinstance(n, Argument):
                dep = True
            elif isinstance(n, Coefficient):
                dep = not _in_h1(n)
            elif isinstance(n, SpatialCoordinate):
                dep = False
            elif isinstance(n, FacetNormal):
                dep = True
            elif isinstance(n, GeometricFacetQuantity):
                dep = type(n).__name__ not in ("FacetJacobian", "FacetJacobianDeterminant", "FacetJacobianInverse",
                                               "FacetArea", "MinFacetEdgeLength", "MaxFacetEdgeLength", "FacetOrigin",
                                               "FacetCoordinate", "ReferenceFacetVolume")
            elif isinstance(n, GeometricCellQuantity):
                dep = type(n).__name__ not in ("QuadratureWeight", "ReferenceCellVolume", "SpatialCoordinate")
            else:
                dep = False
            if dep and k == 0:
                missing = True
                MISSING_ITEMS.add(type(n).__name__)
            continue
        for o in n.ufl_operands:
            stack.append((o, k, False))
    return double, missing, above


def structural(out):
    """In the propagated result: restrictions wrap terminal towers only, never nest; side-dependent terminals are
    wrapped exactly once."""
    from ufl.classes import Grad, ReferenceGrad, ReferenceValue, Restricted, Variable

    seen = set()
    stack = [(out, 0)]
    while stack:
        n, k = stack.pop()
        if (id(n), k) in seen:
            continue
        seen.add((id(n), k))
        if isinstance(n, Restricted):
            if k:
                raise Violation("nested Restricted in the result", {"kind": "nested-restriction"})
            o = n.ufl_operands[0]
            while isinstance(o, (Grad, ReferenceGrad, ReferenceValue)):
                o = o.ufl_operands[0]
            if not o._ufl_is_terminal_:
                raise Violation(f"restriction left above a non-terminal {type(o).__name__}", {"kind": "not-propagated"})
            continue
        for o in n.ufl_operands:
            stack.append((o, k))
    d, m, _ = classify(out)
    if d or m:
        raise Violation("a side-dependent terminal is unrestricted (or doubly restricted) in the result",
                        {"kind": "unrestricted-terminal"})


def check_case(case):
    from ufl.algorithms.apply_algebra_lowering import apply_algebra_lowering
    from ufl.algorithms.apply_derivatives import apply_derivatives
    from ufl.algorithms.apply_restrictions import apply_restrictions

    b, e0 = build_case(case)
    try:
        e = apply_derivatives(apply_algebra_lowering(e0))
        if case.get("lower"):
            # as in compute_form_data with geometry lowering: reference-cell quantities reach the propagation
            from ufl.algorithms.apply_geometry_lowering import apply_geometry_lowering

            e = apply_derivatives(apply_geometry_lowering(e))
    except RecursionError:
        raise
    except Exception as ex:
        raise Discard("pre:" + type(ex).__name__)
    check_acyclic(e, "input")
    double, missing, above = classify(e)
    missing_items = set(MISSING_ITEMS)
    default = {b.mesh: "+"} if case["mode"] == "default" else None
    must_raise = double or (missing and default is not None)
    labels = ["mode:" + case["mode"], "style:" + case["style"]] + (["lowered"] if case.get("lower") else [])
    w = case["world"]
    if w["gdim"] > {"interval": 1, "triangle": 2, "tetrahedron": 3}[w["cell"]]:
        labels.append("manifold")
    via = case.get("via")
    if via and (e0.ufl_shape != () or e0.ufl_free_indices or case.get("lower")):
        via = None
    try:
        if via:
            import ufl
            from ufl.algorithms import compute_form_data
            from ufl.algorithms.check_arities import ArityMismatch

            try:
                fd = compute_form_data(e0 * ufl.Measure(via, domain=b.mesh), do_apply_default_restrictions=default is not None)
            except ArityMismatch:
                raise Discard("pipeline:arity")
            itgs = [i for d in fd.integral_data for i in d.integrals]
            if len(itgs) != 1:
                raise Discard("pipeline: integrand vanished")
            out = itgs[0].integrand()
            labels.append("via:" + via)
        else:
            out = apply_restrictions(e, default_restrictions=default)
        raised = None
    except (RecursionError, Discard):
        raise
    except Exception as ex:
        if via and "apply_restrictions" not in exc_bucket(ex):
            raise Discard("pipeline:" + exc_bucket(ex))
        raised = ex
    if must_raise:
        if raised is None:
            if not double and case.get("lower") and missing_items == {"tower:SpatialCoordinate"}:
                # known finding F26: after geometry lowering all cell geometry is ReferenceGrad(x); x is continuous and
                # takes the default side, so unrestricted cell geometry (CellVolume, Jacobian, normal, ...) is accepted
                raise Violation("invalid program accepted: unrestricted cell geometry, lowered to reference gradients of x "
                                "before the restrictions are checked, silently takes the default side",
                                {"kind": "accepted-missing:lowered-geometry", "known": "F26"})
            raise Violation("invalid program accepted: " + ("nested restriction" if double else "unrestricted side-dependent terminal"),
                            {"kind": "accepted-double" if double else "accepted-missing"})
        return {"nontrivial": True, "labels": labels + ["invalid:double" if double else "invalid:missing"]}
    if raised is not None:
        raise Violation(f"valid program rejected: {type(raised).__name__}: {str(raised)[:200]}", {"kind": "raised:" + exc_bucket(raised)})
    check_acyclic(out, "output")
    if not same_type(e, out):
        raise Violation("shape/free indices changed", {"kind": "type-changed"})
    if default is not None:
        structural(out)
    order = max(derivative_depth(e), derivative_depth(out))
    if order > 3:
        raise Discard("derivative order > 3")
    for rep in range(2):
        envs = make_two_sided(case, rep)
        I = Interp(envs, order=order)
        I.continuous = lambda f: _in_h1(f) if hasattr(f, "ufl_element") else True
        G = Guard(I)
        a = G.value(e)
        bv = eval_output(G, out)
        if not close(a, bv, rtol=1e-7, atol=1e-9):
            raise Violation(f"value changed by restriction propagation: {np.ravel(a)[:3]} vs {np.ravel(bv)[:3]} (rel err {rel_err(a, bv):.3g})",
                            {"kind": "value"})
    return {"nontrivial": above and out is not e, "labels": labels + ["valid"]}

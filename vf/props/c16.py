"""C16 lhs / rhs / system / action / adjoint / energy_norm / functional respect the algebra.

Forms F = a(u, v) + L(v) + M are generated term-wise (bilinear, linear and argument-free terms, also hidden inside
products of sums such as inner(grad(u + g), grad(v))) and every operator's result is compared *numerically*, per
(integral type, subdomain id, metadata), with what the algebra demands, using the reference interpreter with the
arguments as polynomial fields whose coefficients the harness controls:

  a(U,V) := F(U,V) - F(0,V) - F(U,0) + F(0,0),  L(V) := F(0,V) - F(0,0),  M := F(0,0)          (ground truth)
  lhs(F)(U,V) == a(U,V);  rhs(F)(V) == -L(V), independent of U;  functional(F) == M;  F == lhs - rhs + functional
  action(a, f)(V) == a(f, V);  energy_norm(a, f) == a(f, f)
  adjoint(a)(u', v') == conj(a(v, u)) with u', v' the re-numbered arguments (spaces and numbers swapped)
"""

import numpy as np
from hypothesis import strategies as st

from vf.build import Builder
from vf.common import Discard, Violation
from vf.forms import LinGen, build_form, draw_md
from vf.gen import Gen, Profile, ops_in, worlds
from vf.interp import Interp, close, derivative_depth
from vf.props.valuecommon import warmup  # noqa: F401
from vf.props.valuecommon import Guard, exc_bucket, make_env, rel_err

LEVEL = "exploration"
RULE = (
    "Hypothesis: forms with test and trial function (equal or different elements from the zoo) of 1-3 integrals over "
    "dx/ds with subdomain ids and metadata; each integrand a sum of generated bilinear, linear and argument-free terms, "
    "some with the trial function replaced by (u + g) inside the term so that the linear part is hidden under "
    "operators, or as components of a list tensor next to pure-data components (lhs may refuse those explicitly); "
    "real and complex data. One operator per case (lhs, rhs, system, functional, action, adjoint, "
    "energy_norm, action with a given coefficient). non-trivial = the compared value is non-zero and the form mixes at "
    "least two arities (lhs/rhs/functional) or has a bilinear part (action/adjoint/energy_norm); distinct = distinct "
    "(form, operator)."
)
ASSUMPTIONS = [
    "arguments are evaluated as polynomial fields; zeroing / replacing their coefficient arrays gives the ground-truth "
    "split by arity without any symbolic rule",
]
BUDGET = {"quick": {"examples": 2400, "seconds": 70}, "thorough": {"examples": 80000, "seconds": 1500}}
LABEL_FLOORS = {"quick": {"op:lhs": 150, "op:rhs": 150, "op:action": 150, "op:adjoint": 150, "op:energy_norm": 80, "op:functional": 80}}
CASE_TIMEOUT = {"quick": 20, "thorough": 60}

OPS_REAL = {"arith", "math", "cond", "index", "tensor", "compound", "deriv", "pow", "abs", "var"}
REAL = Profile(ops=OPS_REAL, leaves={"coef", "const", "lit", "x", "geo", "eye"}, max_rank=2, elements="all", manifolds=True,
               args=((0, "any"), (1, "any")))
CPLX = Profile(ops={"arith", "math", "index", "tensor", "compound", "deriv", "pow", "var", "complexops"}, cplx=True,
               leaves={"coef", "const", "lit", "x", "eye"}, max_rank=2, elements="all", manifolds=True,
               args=((0, "any"), (1, "any")))
OPERATORS = ["lhs", "rhs", "system", "functional", "action", "action_given", "adjoint", "energy_norm"]


def subst_arg(r, name, repl):
    if isinstance(r, list):
        if r == ["fld", name]:
            return repl
        return [subst_arg(x, name, repl) for x in r]
    return r


# (adjoint on mixed function spaces conjugates each block in place -- the convention pinned by
#  test_mixed_function_space.test_adjoint -- and is therefore not compared with the block-transposed adjoint)
PART_OPERATORS = ["lhs", "rhs", "system", "action", "action_given"]


@st.composite
def parts_cases(draw, tier):
    """Forms on a MixedFunctionSpace: arguments carry parts; blocks (i, j) present or absent at random."""
    world = draw(worlds(REAL))
    for n in ("a0", "a1"):
        world["fields"].pop(n, None)
    g = world["gdim"]
    nparts = draw(st.integers(2, 3))
    shape = draw(st.sampled_from([[], [], [g]]))
    specs = [draw(st.sampled_from([["P", 1, shape], ["P", 2, shape], ["DG", 1, shape]])) for _ in range(nparts)]
    for p_, sp in enumerate(specs):
        world["fields"][f"v{p_}"] = dict(kind="arg", elem=sp, shape=list(shape), number=0, part=p_)
        world["fields"][f"u{p_}"] = dict(kind="arg", elem=sp, shape=list(shape), number=1, part=p_)
    G = Gen(draw, world, REAL)
    L = LinGen(G, cond=False)
    op = draw(st.sampled_from(PART_OPERATORS))
    pure = op in ("action", "action_given", "adjoint")
    blocks = draw(st.lists(st.tuples(st.integers(0, nparts - 1), st.integers(0, nparts - 1)), min_size=1, max_size=4, unique=True))
    lin = [] if pure else draw(st.lists(st.integers(0, nparts - 1), min_size=0, max_size=2, unique=True))
    integrals = []
    terms = [L.term([f"v{i}", f"u{j}"], 1) for i, j in blocks] + [L.term([f"v{i}"], 1) for i in lin]
    nint = draw(st.sampled_from([1, 1, 2]))
    for k in range(nint):
        mine = terms[k::nint]
        if not mine:
            continue
        e = mine[0]
        for t in mine[1:]:
            e = ["add", e, t]
        integrals.append({"itype": "dx", "sid": draw(st.sampled_from([None, None, 1])), "md": draw_md(draw), "expr": e})
    return {"world": world, "vars": G.vars, "integrals": integrals, "op": op, "cplx": False, "same_space": True,
            "parts": nparts, "blocks": [list(b_) for b_ in blocks], "env_seed": draw(st.integers(0, 10**6))}


@st.composite
def cases(draw, tier):
    if draw(st.integers(0, 3)) == 0:
        return draw(parts_cases(tier))
    cplx = draw(st.integers(0, 4)) == 0
    prof = CPLX if cplx else REAL
    world = draw(worlds(prof))
    for n_ in ("a0", "a1"):
        # cell-wise constant arguments make grad(u) vanish only after substitution (energy_norm/action of a form that
        # degenerates to zero raise IndexError): not part of the generated domain
        el = world["fields"][n_]["elem"]
        if el[0] == "Real" or (el[0] in ("DG", "P") and el[1] == 0):
            world["fields"][n_]["elem"] = ["P", 1, list(world["fields"][n_]["shape"])]
    same = draw(st.booleans())
    if same:
        world["fields"]["a1"] = dict(world["fields"]["a0"], number=1)
    G = Gen(draw, world, prof)
    # (lhs/rhs reject arguments inside conditionals with a ValueError: a documented limitation, not generated)
    L = LinGen(G, cplx=cplx, cond=False)
    op = draw(st.sampled_from(OPERATORS))
    if op == "energy_norm" and not same:
        world["fields"]["a1"] = dict(world["fields"]["a0"], number=1)
        same = True
    pure_bilinear = op in ("action", "action_given", "adjoint", "energy_norm")
    ush = tuple(world["fields"]["a1"]["shape"])
    integrals = []
    mixedlist = False
    for _ in range(draw(st.sampled_from([1, 1, 2, 3]))):
        terms = []
        kinds = draw(st.lists(st.sampled_from(["bi", "bi", "lin", "fun", "hidden", "mixedlist"]), min_size=1, max_size=3))
        if pure_bilinear:
            kinds = ["bi"] * len(kinds)
        for k in kinds:
            if k == "bi":
                terms.append(L.term(["a0", "a1"], draw(st.integers(1, 2))))
            elif k == "lin":
                terms.append(L.term(["a0"], draw(st.integers(1, 2))))
            elif k == "fun":
                terms.append(G.expr((), (), 2))
            elif k == "mixedlist":
                # a list tensor whose components have different arities: [T(u), data, 0, ...] . w * T(v)
                # (lhs may refuse it with its explicit ValueError, it must not return a wrong split)
                gd = world["gdim"]
                if gd < 2:
                    terms.append(L.term(["a0", "a1"], 1))
                    continue
                comps = [draw(st.sampled_from(["u", "data", "zero"])) for _ in range(gd)]
                comps[draw(st.integers(0, gd - 1))] = "u"
                free_ = [q for q, c_ in enumerate(comps) if c_ != "u"]
                comps[free_[draw(st.integers(0, len(free_) - 1))] if free_ else 0] = "data"
                if "u" not in comps:
                    comps[-1 if comps[0] == "data" else 0] = "u"
                rows = [L.term(["a1"], 1) if c_ == "u" else (G.expr((), (), 1) if c_ == "data" else ["zero", []]) for c_ in comps]
                terms.append(["mul", ["dot", ["list", rows], G.leaf_field_only((gd,), ())], L.term(["a0"], 1)])
                mixedlist = True
            else:
                nv = len(G.vars)
                t = L.term(["a0", "a1"], draw(st.integers(1, 2)))
                g = G.leaf_field_only(ush, ())
                repl = ["add", ["fld", "a1"], g] if draw(st.booleans()) else ["sub", g, ["fld", "a1"]]
                terms.append(subst_arg(t, "a1", repl))
                # ... also inside the variables this term created: variable(u + g) is affine in u
                for k in range(nv, len(G.vars)):
                    G.vars[k] = subst_arg(G.vars[k], "a1", repl)
        e = terms[0]
        for t in terms[1:]:
            e = [draw(st.sampled_from(["add", "add", "sub"])), e, t]
        integrals.append({"itype": draw(st.sampled_from(["dx", "dx", "ds"])), "sid": draw(st.sampled_from([None, None, 1, [1, 2]])),
                          "md": draw_md(draw), "expr": e})
    return {"world": world, "vars": G.vars, "integrals": integrals, "op": op, "cplx": cplx, "same_space": same,
            "mixedlist": mixedlist, "env_seed": draw(st.integers(0, 10**6))}


def strategy(tier):
    return cases(tier)


def fkey(itg):
    md = itg.metadata()
    return (itg.integral_type(), str(itg.subdomain_id()), repr(sorted((k, repr(v)) for k, v in md.items())))


def form_values(form, mk_interp, itype_env):
    """{(integral type, subdomain id, metadata): value}"""
    out = {}
    if form is None or form == 0:
        return out
    for itg in form.integrals():
        I = mk_interp(itg.integral_type())
        v = Guard(I).value(itg.integrand())
        k = fkey(itg)
        out[k] = out.get(k, 0.0) + v
    return out


def same_values(a, b, what):
    for k in set(a) | set(b):
        va, vb = a.get(k, 0.0), b.get(k, 0.0)
        if not close(np.asarray(va), np.asarray(vb), rtol=1e-7, atol=1e-9):
            raise Violation(f"{what}: on {k[0]} subdomain {k[1]}: expected {np.ravel(va)[:2]} got {np.ravel(vb)[:2]} "
                            f"(rel err {rel_err(va, vb):.3g})", {"kind": "value:" + what.split(':')[0]})


def combine(*pairs):
    out = {}
    for c, d in pairs:
        for k, v in d.items():
            out[k] = out.get(k, 0.0) + c * v
    return out


def make_interp_factory(case, rep, order, cplx):
    def mk(zero=(), subst=None, alias=None):
        def make(itype):
            env = make_env(case, rep, facet=(itype == "exterior_facet"), cplx=cplx)
            I = Interp(env, order=order)
            exps, _ = I._monomials(None, False)
            for a in zero:
                ncomp = int(np.prod(a.ufl_element().reference_value_shape, dtype=int))
                env.fixed["rp:" + repr(a)] = np.zeros((ncomp, len(exps)))
            for k_, v_ in (subst or {}).items():
                I.subst[repr(k_)] = v_
            for k_, v_ in (alias or {}).items():
                I.alias[repr(k_)] = v_
            return I
        return make
    return mk


def identically_zero(case, form, order):
    """the form's value vanishes for random arguments and data on two cells"""
    try:
        for rep in range(2):
            vals = form_values(form, make_interp_factory(case, rep, order, case.get("cplx", False))(), None)
            if any(np.any(np.abs(x) > 1e-12) for x in vals.values()):
                return False
        return True
    except Discard:
        return False


def check_parts(case, b, form, exprs):
    import ufl

    op = case["op"]
    n = case["parts"]
    vs = [b.fields[f"v{p}"] for p in range(n)]
    us = [b.fields[f"u{p}"] for p in range(n)]
    order = max(derivative_depth(e) for e in exprs)
    if order > 3:
        raise Discard("derivative order > 3")
    present_u = [a for a in form.arguments() if a.number() == 1]
    if op in ("action", "action_given", "adjoint") and not present_u:
        raise Discard("no trial function left")
    fs = None
    try:
        if op == "lhs":
            res = {"lhs": ufl.lhs(form)}
        elif op == "rhs":
            res = {"rhs": ufl.rhs(form)}
        elif op == "system":
            l, r = ufl.system(form)
            res = {"lhs": l, "rhs": r}
        elif op == "action":
            res = {"action": ufl.action(form)}
        elif op == "action_given":
            fs = [ufl.Coefficient(u.ufl_function_space()) for u in us]
            res = {"action": ufl.action(form, fs)}
        else:
            res = {"adjoint": ufl.adjoint(form)}
    except RecursionError:
        raise
    except Exception as ex:
        if identically_zero(case, form, order):
            # (a form whose value is zero although it is not a literal zero -- variable(0)*u*v -- degenerates inside
            #  action/adjoint: the documented non-finding of DESIGN 11)
            raise Discard("form is identically zero")
        raise Violation(f"{op} (mixed function space) raised {type(ex).__name__}: {str(ex)[:300]}", {"kind": "raised:" + exc_bucket(ex)})
    nonzero = False
    for rep in range(2):
        mk = make_interp_factory(case, rep, order, False)
        F_uv = form_values(form, mk(), None)
        F_0v = form_values(form, mk(zero=us), None)
        F_u0 = form_values(form, mk(zero=vs), None)
        F_00 = form_values(form, mk(zero=us + vs), None)
        a_uv = combine((1, F_uv), (-1, F_0v), (-1, F_u0), (1, F_00))
        L_v = combine((1, F_0v), (-1, F_00))
        if "lhs" in res:
            same_values(a_uv, form_values(res["lhs"], mk(), None), "lhs: bilinear part (parts)")
            nonzero |= any(np.any(np.abs(x) > 1e-12) for x in a_uv.values())
        if "rhs" in res:
            same_values(combine((-1, L_v)), form_values(res["rhs"], mk(), None), "rhs: minus the linear part (parts)")
            same_values(combine((-1, L_v)), form_values(res["rhs"], mk(zero=us), None), "rhs: independent of the trial functions (parts)")
            nonzero |= any(np.any(np.abs(x) > 1e-12) for x in L_v.values())
        if "action" in res:
            fa = res["action"]
            if any(a_.number() == 1 for a_ in fa.arguments()):
                raise Violation("action: a trial function is still an argument of the result", {"kind": "action-argument-left"})
            if fs is not None:
                exp = form_values(form, mk(subst={u: f for u, f in zip(us, fs)}), None)
                same_values(exp, form_values(fa, mk(), None), "action: a(f, v) with part k replaced by f[k]")
            else:
                new = [c for c in fa.coefficients() if c not in form.coefficients()]
                # trial functions the form really depends on (a term like inner(dev(I), grad(u)) vanishes once
                # action has expanded it: no coefficient is needed for such a part)
                dep = []
                for u in present_u:
                    try:
                        same_values(F_uv, form_values(form, mk(zero=[u]), None), "dependence")
                    except Violation:
                        dep.append(u)
                for u in dep:
                    cands = [c for c in new if c.ufl_function_space() == u.ufl_function_space()]
                    if not cands:
                        raise Violation("action: no new coefficient on the space of a replaced trial function", {"kind": "action-no-coefficient"})
                if not (len(dep) <= len(new) <= len(present_u)):
                    raise Violation(f"action: {len(present_u)} trial functions ({len(dep)} of which matter) but {len(new)} new coefficients",
                                    {"kind": "action-coefficient-count"})
                # which new coefficient replaced which part is not observable from outside when spaces coincide:
                # accept any assignment that reproduces the value
                import itertools

                got = form_values(fa, mk(), None)
                ok = False
                for perm in itertools.permutations(new, len(dep)):
                    if any(c.ufl_function_space() != u.ufl_function_space() for c, u in zip(perm, dep)):
                        continue
                    exp = form_values(form, mk(subst=dict(zip(dep, perm)), zero=[u for u in present_u if u not in dep]), None)
                    try:
                        same_values(exp, got, "action")
                        ok = True
                        break
                    except Violation:
                        continue
                if not ok:
                    raise Violation("action: result is not the form with each trial function replaced by a new coefficient", {"kind": "value:action"})
            nonzero = True
        if "adjoint" in res:
            adj = res["adjoint"]
            alias = {}
            for a_ in adj.arguments():
                # the new argument with number 0 / part p stands where the old trial function of part p stood
                old = (us if a_.number() == 0 else vs)[a_.part()]
                if a_.ufl_function_space() != old.ufl_function_space():
                    raise Violation("adjoint: function space of a re-numbered argument differs from the argument it replaces", {"kind": "adjoint-spaces"})
                alias[a_] = old
            got = form_values(adj, mk(alias=alias), None)
            same_values({k: np.conj(x) for k, x in F_uv.items()}, got, "adjoint: conj(a(v, u)) (parts)")
            nonzero |= any(np.any(np.abs(x) > 1e-12) for x in F_uv.values())
    return {"nontrivial": nonzero, "labels": ["op:" + ("lhs" if op == "system" else ("action" if op == "action_given" else op)), "parts"]}


def check_case(case):
    import ufl

    b = Builder(case["world"], case.get("vars", ()))
    try:
        form, exprs = build_form(b, case["integrals"])
    except RecursionError:
        raise
    except Exception as ex:
        raise Discard("build:" + type(ex).__name__)
    if form is None or not form.integrals():
        raise Discard("empty form")
    op = case["op"]
    cplx = case["cplx"]
    try:
        from ufl.algorithms import expand_derivatives

        fe = expand_derivatives(form)
        if fe.empty() or (case["op"] in ("action", "action_given", "adjoint", "energy_norm") and len(fe.arguments()) != 2):
            # the form vanishes / loses an argument once derivatives are expanded (gradient of a cell-wise constant
            # argument): action/energy_norm of the zero form raise IndexError -- not part of the generated domain
            raise Discard("form degenerates after derivative expansion")
    except Discard:
        raise
    except Exception as ex:
        raise Discard("pre:" + type(ex).__name__)
    nparts = case.get("parts", 0)
    if nparts:
        return check_parts(case, b, form, exprs)
    v, u = b.fields["a0"], b.fields["a1"]
    order = max(derivative_depth(e) for e in exprs)
    if order > 3:
        raise Discard("derivative order > 3")
    args = form.arguments()
    if op in ("action", "action_given", "adjoint", "energy_norm") and len(args) != 2:
        raise Discard("not bilinear after construction")
    f_given = None
    try:
        if op == "lhs":
            res = {"lhs": ufl.lhs(form)}
        elif op == "rhs":
            res = {"rhs": ufl.rhs(form)}
        elif op == "system":
            l, r = ufl.system(form)
            res = {"lhs": l, "rhs": r}
        elif op == "functional":
            res = {"functional": ufl.functional(form)}
        elif op == "action":
            res = {"action": ufl.action(form)}
        elif op == "action_given":
            f_given = ufl.Coefficient(u.ufl_function_space())
            res = {"action": ufl.action(form, f_given)}
        elif op == "adjoint":
            res = {"adjoint": ufl.adjoint(form)}
        else:
            f_given = ufl.Coefficient(u.ufl_function_space())
            res = {"energy_norm": ufl.energy_norm(form, f_given)}
    except RecursionError:
        raise
    except Exception as ex:
        if case.get("mixedlist") and isinstance(ex, ValueError) and "list_tensors with non-zero components providing fewer arguments" in str(ex):
            # the documented explicit refusal of list tensors with components of different arity
            return {"nontrivial": False, "labels": ["mixed-list:refused", "op:" + ("lhs" if op == "system" else op)]}
        if op in ("action", "action_given", "adjoint", "energy_norm") and identically_zero(case, form, order):
            raise Discard("form is identically zero")
        raise Violation(f"{op} raised {type(ex).__name__}: {str(ex)[:300]}", {"kind": "raised:" + exc_bucket(ex)})
    nonzero = False
    for rep in range(2):
        def mk(zero=(), subst=None, alias=None):
            def make(itype):
                env = make_env(case, rep, facet=(itype == "exterior_facet"), cplx=cplx)
                I = Interp(env, order=order)
                exps, _ = I._monomials(None, False)
                for a in zero:
                    ncomp = int(np.prod(a.ufl_element().reference_value_shape, dtype=int))
                    env.fixed["rp:" + repr(a)] = np.zeros((ncomp, len(exps)))
                for k_, v_ in (subst or {}).items():
                    I.subst[repr(k_)] = v_
                for k_, v_ in (alias or {}).items():
                    I.alias[repr(k_)] = v_
                return I
            return make

        F_uv = form_values(form, mk(), None)
        F_0v = form_values(form, mk(zero=[u]), None)
        F_u0 = form_values(form, mk(zero=[v]), None)
        F_00 = form_values(form, mk(zero=[u, v]), None)
        a_uv = combine((1, F_uv), (-1, F_0v), (-1, F_u0), (1, F_00))
        L_v = combine((1, F_0v), (-1, F_00))
        M = F_00
        if "lhs" in res:
            same_values(a_uv, form_values(res["lhs"], mk(), None), "lhs: bilinear part")
            nonzero |= any(np.any(np.abs(x) > 1e-12) for x in a_uv.values())
        if "rhs" in res:
            same_values(combine((-1, L_v)), form_values(res["rhs"], mk(), None), "rhs: minus the linear part")
            same_values(combine((-1, L_v)), form_values(res["rhs"], mk(zero=[u]), None), "rhs: independent of the trial function")
            nonzero |= any(np.any(np.abs(x) > 1e-12) for x in L_v.values())
        if "functional" in res:
            same_values(M, form_values(res["functional"], mk(), None), "functional: argument-free part")
            nonzero |= any(np.any(np.abs(x) > 1e-12) for x in M.values())
        if "action" in res:
            fa = res["action"]
            new = [c for c in fa.coefficients() if c not in form.coefficients()]
            f = f_given if f_given is not None else (new[0] if new else None)
            if f is None:
                # legitimate only if the form does not depend on the trial function after derivative expansion
                same_values(F_uv, F_0v, "action: no coefficient replaced the trial function although the form depends on it")
                f = u
            if any(a_.number() == 1 for a_ in fa.arguments()):
                raise Violation("action: the trial function is still an argument of the result", {"kind": "action-argument-left"})
            exp = form_values(form, mk(subst=({u: f} if f is not u else None)), None)
            same_values(exp, form_values(fa, mk(), None), "action: a(f, v)")
            nonzero |= any(np.any(np.abs(x) > 1e-12) for x in exp.values())
        if "energy_norm" in res:
            exp = form_values(form, mk(subst={u: f_given, v: f_given}), None)
            fn = res["energy_norm"]
            if fn.arguments():
                raise Violation("energy_norm: arguments left in the result", {"kind": "energy-arguments-left"})
            same_values(exp, form_values(fn, mk(), None), "energy_norm: a(f, f)")
            nonzero |= any(np.any(np.abs(x) > 1e-12) for x in exp.values())
        if "adjoint" in res:
            adj = res["adjoint"]
            aargs = adj.arguments()
            if len(aargs) != 2:
                raise Violation("adjoint: result is not bilinear", {"kind": "adjoint-arity"})
            v2, u2 = aargs  # numbers 0, 1
            if v2.ufl_function_space() != u.ufl_function_space() or u2.ufl_function_space() != v.ufl_function_space():
                raise Violation("adjoint: function spaces of the arguments are not swapped", {"kind": "adjoint-spaces"})
            # the new test function (number 0) stands where u stood, the new trial function where v stood
            got = form_values(adj, mk(alias={v2: u, u2: v}), None)
            exp = {k: np.conj(x) for k, x in F_uv.items()}
            same_values(exp, got, "adjoint: conj(a(v, u))")
            nonzero |= any(np.any(np.abs(x) > 1e-12) for x in exp.values())
    kinds = set()
    labels = ["op:" + ("lhs" if op == "system" else ("action" if op == "action_given" else op)), "complex" if cplx else "real"]
    if case.get("mixedlist"):
        labels.append("mixed-list:split")
    return {"nontrivial": nonzero, "labels": labels}

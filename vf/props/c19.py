"""C19 DAG traversal and mapping visit every distinct node correctly.

Generated expression DAGs with controlled sharing (the same sub-expression *object* used several times, structurally
equal but distinct objects, deep chains, wide list tensors) are compared against naive recursive reference
implementations written in the harness (own structural key, own nearest-ancestor dispatch through type.__mro__):

  traversal   unique_pre/post_traversal, cutoff variants, pre/post_traversal, traverse_(unique_)terminals
  mapping     map_expr_dag(F, e) for a freshly generated MultiFunction with a random handler table (post-order and
              cut-off handlers that return a string naming the handler and its processed operands) == recursive
              tree application; compress on/off; shared vcache/rcache across calls; F(e) dispatch
  Transformer random tables of expression-rewriting handlers incl. reuse_variable / reconstruct_variable, several
              transformer objects applied one after the other to expressions sharing variables
                (MultiFunction classes are also generated as two-level hierarchies: base instantiated first)
  DAGTraverser  random singledispatch registrations (post-order / pre-order rules), and rules that pass a context
                to the operands through keyword arguments (a subset of them, in either order)
All generated algorithm classes deliberately share one module and one __qualname__.
"""

import itertools

import numpy as np
from hypothesis import strategies as st

from vf.build import Builder
from vf.common import Discard, Violation
from vf.gen import Gen, Profile, worlds

LEVEL = "exploration"
RULE = (
    "Hypothesis: expression DAGs from the grammar (arithmetic, index notation, tensors, conditionals, math functions, "
    "compound algebra, derivatives, variables) with 0-4 shared sub-expression objects referenced from several places, "
    "plus structurally equal copies, chains of depth up to 400 and list tensors of width up to 12; handler tables = "
    "random subsets of the handler names on the MRO chains of the node types that occur (with or without catch-all), "
    "each handler post-order or cut-off; 1-3 algorithm objects per case applied in sequence. non-trivial = the DAG has "
    "a shared non-terminal node and at least 3 distinct handlers were dispatched to; distinct = distinct "
    "(recipe, handler table)."
)
ASSUMPTIONS = ["the harness' own structural key (type name + operand keys; terminals by repr) defines 'structurally distinct'"]
BUDGET = {"quick": {"examples": 4000, "seconds": 70}, "thorough": {"examples": 150000, "seconds": 1500}}
LABEL_FLOORS = {"quick": {"algo:multifunction": 800, "algo:transformer": 500, "algo:dagtraverser": 400, "shared": 1200}}

OPS = {"arith", "math", "cond", "index", "tensor", "compound", "deriv", "pow", "abs", "var", "sign"}
PROF = Profile(ops=OPS, leaves={"coef", "const", "lit", "x", "geo", "zero", "eye"}, max_rank=2, elements="lagrange",
               manifolds=False, weights={"var": 3})


@st.composite
def cases(draw, tier):
    world = draw(worlds(PROF))
    G = Gen(draw, world, PROF)
    g = world["gdim"]
    # shared sub-expressions: registered like variables so that the grammar references them (["var", k]); the
    # builder of this module builds a *plain* shared object for the ones listed in "plain"
    nshared = draw(st.integers(0, 4))
    plain = []
    for _ in range(nshared):
        sh = draw(st.sampled_from([(), (), (g,), (g, g)]))
        G.new_var(G.expr(sh, (), draw(st.integers(1, 2))), sh)
        if draw(st.integers(0, 2)) > 0:
            plain.append(len(G.vars) - 1)
    sh = draw(st.sampled_from([(), (), (g,)]))
    e = G.expr(sh, (), draw(st.integers(2, 4)))
    shape_kind = draw(st.sampled_from(["plain", "plain", "chain", "wide", "copy"]))
    extra = {}
    if shape_kind == "chain":
        extra = {"chain": draw(st.integers(50, 400))}
    elif shape_kind == "wide":
        extra = {"wide": draw(st.integers(4, 12))}
    algo = draw(st.sampled_from(["multifunction", "multifunction", "transformer", "dagtraverser"]))
    return {"world": world, "expr": e, "vars": G.vars, "plain": plain, "kind": shape_kind, "extra": extra, "algo": algo,
            "table_seed": draw(st.integers(0, 10**9)), "ntables": draw(st.integers(1, 3)),
            "compress": draw(st.booleans()), "share_caches": draw(st.booleans())}


def strategy(tier):
    return cases(tier)


class SharedBuilder(Builder):
    def __init__(self, world, var_recipes, plain):
        super().__init__(world, var_recipes)
        self.plain = set(plain)

    def var(self, k):
        if k not in self.vars:
            import ufl

            body = self.build(self.var_recipes[k])
            self.vars[k] = body if k in self.plain else self.mk_variable(body, k)
        return self.vars[k]


# ---------------------------------------------------------------------------------------------- reference side
class CyclicDAG(Exception):
    """an expression 'DAG' that contains itself"""


class Keys:
    """Own structural key, computed by plain recursion with memo on object identity."""

    def __init__(self):
        self.ids = {}
        self.intern = {}
        self.keep = []

    def key(self, e):
        stack = [e]
        expanding = set()  # nodes whose operands are being keyed: meeting one again means the DAG has a cycle
        while stack:
            n = stack[-1]
            if id(n) in self.ids:
                stack.pop()
                continue
            todo = [o for o in n.ufl_operands if id(o) not in self.ids]
            if todo:
                if id(n) in expanding or any(id(o) in expanding or o is n for o in todo):
                    raise CyclicDAG(type(n).__name__)
                expanding.add(id(n))
                stack.extend(todo)
                continue
            expanding.discard(id(n))
            if n._ufl_is_terminal_:
                desc = (type(n).__name__, repr(n))
            else:
                desc = (type(n).__name__,) + tuple(self.ids[id(o)] for o in n.ufl_operands)
            self.ids[id(n)] = self.intern.setdefault(desc, len(self.intern))
            self.keep.append(n)
            stack.pop()
        return self.ids[id(e)]


def handler_name_of(cls):
    return cls._ufl_handler_name_


def reference_dispatch(node, table):
    """first class on type(node).__mro__ (ufl classes only) whose handler name is in the table"""
    for c in type(node).__mro__:
        hn = c.__dict__.get("_ufl_handler_name_")
        if hn is None:
            continue
        if hn in table:
            return hn
    return None


def tree_apply(e, table, memo=None):
    """Reference: apply the string-building handlers recursively to the *tree* (memoised per object for speed)."""
    memo = {} if memo is None else memo
    stack = [e]
    while stack:
        n = stack[-1]
        if id(n) in memo:
            stack.pop()
            continue
        hn = reference_dispatch(n, table)
        if hn is None:
            memo[id(n)] = ("ERR", type(n).__name__)
            stack.pop()
            continue
        if table[hn] == "cut":
            memo[id(n)] = f"{hn}[{type(n).__name__}]"
            stack.pop()
            continue
        todo = [o for o in n.ufl_operands if id(o) not in memo]
        if todo:
            stack.extend(todo)
            continue
        ops = [memo[id(o)] for o in n.ufl_operands]
        err = next((o for o in ops if isinstance(o, tuple)), None)
        memo[id(n)] = err if err is not None else f"{hn}({','.join(ops)})"
        stack.pop()
    return memo[id(e)]


def make_table(rng, e, catch_all=True):
    from ufl.corealg.traversal import unique_pre_traversal

    names = []
    for n in unique_pre_traversal(e):
        for c in type(n).__mro__:
            hn = c.__dict__.get("_ufl_handler_name_")
            if hn and hn not in names:
                names.append(hn)
    names = [n for n in names if n not in ("ufl_type",)]
    table = {}
    for hn in names:
        if rng.random() < 0.35:
            table[hn] = "cut" if rng.random() < 0.25 else "post"
    if catch_all:
        table.setdefault("expr", "post")
        table.setdefault("terminal" if rng.random() < 0.5 else "expr", "post")
    return table


def make_multifunction(table, base=None):
    from ufl.corealg.multifunction import MultiFunction

    base = base or MultiFunction

    def cut_handler(hn):
        def h(self, o):  # two parameters: a cut-off handler
            return f"{hn}[{type(o).__name__}]"
        return h

    def post_handler(hn):
        def h(self, o, *ops):
            return f"{hn}({','.join(ops)})"
        return h

    ns = {hn: (cut_handler(hn) if kind == "cut" else post_handler(hn)) for hn, kind in table.items()}
    # same module and qualified name for every generated class, on purpose
    cls = type("GeneratedAlgorithm", (base,), ns)
    cls.__qualname__ = "GeneratedAlgorithm"
    return cls


# ---------------------------------------------------------------------------------------------- checks
def check_traversals(e, K):
    from ufl.corealg import traversal as tv

    ref = set()
    tree_size = {}

    def walk(n):
        # iterative tree size + distinct keys
        order = []
        stack = [n]
        seen = set()
        while stack:
            x = stack.pop()
            if id(x) in seen:
                continue
            seen.add(id(x))
            order.append(x)
            stack.extend(x.ufl_operands)
        for x in reversed(order):
            ref.add(K.key(x))
        # tree sizes bottom-up
        done = {}
        stack = [n]
        while stack:
            x = stack[-1]
            if id(x) in done:
                stack.pop()
                continue
            todo = [o for o in x.ufl_operands if id(o) not in done]
            if todo:
                stack.extend(todo)
                continue
            done[id(x)] = 1 + sum(done[id(o)] for o in x.ufl_operands)
            stack.pop()
        return done[id(n)]

    size = walk(e)
    post = list(tv.unique_post_traversal(e))
    keys = [K.key(n) for n in post]
    if len(keys) != len(set(keys)):
        raise Violation("unique_post_traversal yields a structurally equal node twice", {"kind": "post-duplicate"})
    if set(keys) != ref:
        raise Violation(f"unique_post_traversal visits {len(set(keys))} distinct nodes, the DAG has {len(ref)}", {"kind": "post-missing"})
    pos = {k: i for i, k in enumerate(keys)}
    for n in post:
        for o in n.ufl_operands:
            if pos[K.key(o)] > pos[K.key(n)]:
                raise Violation("unique_post_traversal yields a node before one of its operands", {"kind": "post-order"})
    if K.key(post[-1]) != K.key(e):
        raise Violation("unique_post_traversal does not end with the root", {"kind": "post-root"})
    pre = list(tv.unique_pre_traversal(e))
    pkeys = [K.key(n) for n in pre]
    if len(pkeys) != len(set(pkeys)) or set(pkeys) != ref:
        raise Violation("unique_pre_traversal does not visit every distinct node exactly once", {"kind": "pre-set"})
    if K.key(pre[0]) != K.key(e):
        raise Violation("unique_pre_traversal does not start with the root", {"kind": "pre-root"})
    ppos = {k: i for i, k in enumerate(pkeys)}
    parents = {}
    for n in pre:
        for o in n.ufl_operands:
            parents.setdefault(K.key(o), []).append(K.key(n))
    for k, ps in parents.items():
        if k != K.key(e) and min(ppos[p] for p in ps) > ppos[k]:
            raise Violation("unique_pre_traversal yields a node before all of its parents", {"kind": "pre-order"})
    if size <= 20000:
        n_pre = sum(1 for _ in tv.pre_traversal(e))
        n_post = sum(1 for _ in tv.post_traversal(e))
        if n_pre != size or n_post != size:
            raise Violation(f"pre/post_traversal visit {n_pre}/{n_post} nodes, the tree has {size}", {"kind": "tree-size"})
    terms = {K.key(n) for n in post if n._ufl_is_terminal_}
    ut = [K.key(t) for t in tv.traverse_unique_terminals(e)]
    if len(ut) != len(set(ut)) or set(ut) != terms:
        raise Violation("traverse_unique_terminals does not yield every distinct terminal exactly once", {"kind": "terminals"})
    return size, len(ref)


def check_cutoff(e, K, rng):
    from ufl.core.expr import Expr
    from ufl.corealg.traversal import cutoff_unique_post_traversal, unique_pre_traversal

    types = sorted({type(n) for n in unique_pre_traversal(e)}, key=lambda c: c.__name__)
    cut = [False] * Expr._ufl_num_typecodes_
    for t in types:
        if not t._ufl_is_terminal_ and rng.random() < 0.3:
            cut[t._ufl_typecode_] = True
    got = [K.key(n) for n in cutoff_unique_post_traversal(e, cut, set())]
    # reference: distinct nodes reachable without descending below a cut-off node
    ref = set()
    stack = [e]
    seen = set()
    while stack:
        n = stack.pop()
        if id(n) in seen:
            continue
        seen.add(id(n))
        ref.add(K.key(n))
        if not cut[n._ufl_typecode_]:
            stack.extend(n.ufl_operands)
    if len(got) != len(set(got)) or set(got) != ref:
        raise Violation("cutoff_unique_post_traversal does not visit exactly the distinct nodes above the cut-off types",
                        {"kind": "cutoff-set"})


def check_multifunction(case, exprs, K, rng):
    from ufl.corealg.map_dag import map_expr_dag, map_expr_dags

    used = set()
    vcache, rcache = {}, {}
    for t in range(case["ntables"]):
        e = exprs[t % len(exprs)]
        table = make_table(rng, e, catch_all=rng.random() < 0.85)
        if rng.random() < 0.35 and len(table) >= 2:
            # a two-level hierarchy: the base algorithm (a subset of the handlers, some of the other kind) is
            # instantiated and used first, the derived class adds / overrides handlers
            names = list(table)
            base_table = {}
            for hn in names:
                if hn == "expr" or rng.random() < 0.5:
                    base_table[hn] = table[hn] if rng.random() < 0.7 else ("cut" if table[hn] == "post" else "post")
            if len(base_table) == len(table) and all(base_table[h] == table[h] for h in table):
                base_table.pop(names[-1])
            Base = make_multifunction(base_table)
            Fb = Base()
            expb = tree_apply(e, base_table)
            if not isinstance(expb, tuple) and map_expr_dag(Fb, e, compress=case["compress"]) != expb:
                raise Violation("map_expr_dag result of the base algorithm differs from recursive tree application", {"kind": "map-dag-result"})
            cls = make_multifunction({hn: k_ for hn, k_ in table.items() if base_table.get(hn) != k_}, base=Base)
            derived = True
        else:
            cls = make_multifunction(table)
            derived = False
        F = cls()
        if derived:
            used.add("derived-algorithm")
        exp = tree_apply(e, table)
        kw = {"compress": case["compress"]}
        if case["share_caches"]:
            # caches may only be shared between calls of the same function object
            vcache, rcache = {}, {}
            kw.update(vcache=vcache, rcache=rcache)
        for rnd in range(2 if case["share_caches"] else 1):
            try:
                got = map_expr_dag(F, e, **kw)
            except ValueError as ex:
                got = ("ERR", str(ex))
            if isinstance(exp, tuple):
                if not (isinstance(got, tuple) and "No handler defined for" in got[1]):
                    raise Violation(f"type {exp[1]} has no handler in the table but map_expr_dag returned {str(got)[:100]}",
                                    {"kind": "missing-handler-not-reported"})
            elif got != exp:
                raise Violation(f"map_expr_dag result differs from recursive tree application: {str(got)[:150]} vs {str(exp)[:150]}",
                                {"kind": "map-dag-result"})
        if not isinstance(exp, tuple):
            # several expressions at once
            got2 = map_expr_dags(F, [e, e], compress=case["compress"])
            if got2[0] != exp or got2[1] != exp:
                raise Violation("map_expr_dags result differs from recursive tree application", {"kind": "map-dags-result"})
            # direct dispatch of the root
            hn = reference_dispatch(e, table)
            if table[hn] == "post":
                direct = F(e, *[tree_apply(o, table) for o in e.ufl_operands])
            else:
                direct = F(e)
            if direct != exp:
                raise Violation(f"F(root) dispatched to the wrong handler: {str(direct)[:120]} vs {str(exp)[:120]}", {"kind": "dispatch"})
            used |= {tok.split("(")[0].split("[")[0] for tok in exp.replace(")", ",").split(",") if tok}
    return used


def check_transformer(case, exprs, K, rng, b):
    import ufl
    from ufl.algorithms.transformer import Transformer, apply_transformer
    from ufl.classes import Coefficient, Variable
    from ufl.corealg.traversal import unique_pre_traversal

    coefs = [f for f in b.fields.values() if isinstance(f, Coefficient)]
    used = set()
    for t in range(case["ntables"]):
        e = exprs[t % len(exprs)]
        # mapping of some coefficients to others of the same shape, different per transformer object
        mapping = {}
        for c in coefs:
            same = [d for d in coefs if d.ufl_shape == c.ufl_shape and d is not c]
            if same and rng.random() < 0.4:
                mapping[c] = same[int(rng.integers(0, len(same)))]
        var_rule = ["reuse_variable", "reconstruct_variable", "expr"][int(rng.integers(0, 3))]
        always = rng.random() < 0.3

        def make_coefficient(m):
            def coefficient(self, o):
                return m.get(o, o)
            return coefficient

        ns = {"coefficient": make_coefficient(mapping),
              "expr": Transformer.always_reconstruct if always else Transformer.reuse_if_untouched,
              "terminal": Transformer.reuse}
        if var_rule != "expr":
            ns["variable"] = getattr(Transformer, var_rule)
        cls = type("GeneratedAlgorithm", (Transformer,), ns)
        cls.__qualname__ = "GeneratedAlgorithm"
        T = cls()

        # reference: plain recursion over the tree
        memo = {}

        def ref(n):
            stack = [n]
            while stack:
                x = stack[-1]
                if id(x) in memo:
                    stack.pop()
                    continue
                if x._ufl_is_terminal_:
                    memo[id(x)] = mapping.get(x, x) if isinstance(x, Coefficient) else x
                    stack.pop()
                    continue
                todo = [o for o in x.ufl_operands if id(o) not in memo]
                if todo:
                    stack.extend(todo)
                    continue
                ops = [memo[id(o)] for o in x.ufl_operands]
                if isinstance(x, Variable) and var_rule != "expr":
                    memo[id(x)] = x if (ops[0] == x.ufl_operands[0] and var_rule == "reuse_variable") else Variable(ops[0], x.ufl_operands[1])
                elif all(a is b_ for a, b_ in zip(ops, x.ufl_operands)) and not always:
                    memo[id(x)] = x
                else:
                    memo[id(x)] = x._ufl_expr_reconstruct_(*ops)
                stack.pop()
            return memo[id(n)]

        try:
            exp = ref(e)
        except Exception:
            raise Discard("reference reconstruction failed")
        try:
            got = T.visit(e)
        except RecursionError:
            raise Discard("expression too deep for the recursive Transformer")
        if K.key(got) != K.key(exp):
            raise Violation(f"Transformer result differs from recursive application (variable rule {var_rule}): "
                            f"{str(got)[:120]} vs {str(exp)[:120]}", {"kind": "transformer-result", "variable_rule": var_rule})
        used |= {type(n).__name__ for n in unique_pre_traversal(e)}
    return used


def check_dagtraverser(case, exprs, K, rng):
    from functools import singledispatchmethod

    from ufl.classes import Expr
    from ufl.corealg.dag_traverser import DAGTraverser
    from ufl.corealg.traversal import unique_pre_traversal

    used = set()
    for t in range(case["ntables"]):
        e = exprs[t % len(exprs)]
        classes = []
        for n in unique_pre_traversal(e):
            for c in type(n).__mro__:
                if isinstance(c, type) and issubclass(c, Expr) and c not in classes:
                    classes.append(c)
        table = {}
        for c in classes:
            if c is Expr or rng.random() < 0.3:
                table[c] = "cut" if (c is not Expr and rng.random() < 0.25) else "post"

        class GeneratedAlgorithm(DAGTraverser):
            @singledispatchmethod
            def process(self, o, **kw):
                return super().process(o, **kw)

        def cut_rule(c):
            def rule(self, o):
                return f"{c.__name__}[{type(o).__name__}]"
            return rule

        def post_rule(c):
            def rule(self, o):
                return f"{c.__name__}({','.join(self(op) for op in o.ufl_operands)})"
            return rule

        for c, kind in table.items():
            GeneratedAlgorithm.process.register(c)(cut_rule(c) if kind == "cut" else post_rule(c))

        def ref(n, memo):
            stack = [n]
            while stack:
                x = stack[-1]
                if id(x) in memo:
                    stack.pop()
                    continue
                c = next(c for c in type(x).__mro__ if c in table)
                if table[c] == "cut":
                    memo[id(x)] = f"{c.__name__}[{type(x).__name__}]"
                    stack.pop()
                    continue
                todo = [o for o in x.ufl_operands if id(o) not in memo]
                if todo:
                    stack.extend(todo)
                    continue
                memo[id(x)] = f"{c.__name__}({','.join(memo[id(o)] for o in x.ufl_operands)})"
                stack.pop()
            return memo[id(n)]

        exp = ref(e, {})
        T = GeneratedAlgorithm(compress=case["compress"])
        try:
            got = T(e)
        except RecursionError:
            raise Discard("expression too deep for the recursive DAGTraverser")
        if got != exp:
            raise Violation(f"DAGTraverser result differs from recursive application: {str(got)[:150]} vs {str(exp)[:150]}",
                            {"kind": "dagtraverser-result"})
        used |= {c.__name__ for c in table}
    return used


def check_dagtraverser_context(case, exprs, K, rng):
    """Rules that hand a context down to the operands through keyword arguments (some or all of them, in either
    order, the rest defaulting): the memoised traversal must equal the recursive one keyed on the full context."""
    from functools import singledispatchmethod

    from ufl.classes import Expr
    from ufl.corealg.dag_traverser import DAGTraverser
    from ufl.corealg.traversal import unique_pre_traversal

    KINDS = ["keep", "keep", "seta", "setb", "ab", "ba", "none", "cut"]
    for t in range(case["ntables"]):
        e = exprs[t % len(exprs)]
        classes = []
        for n in unique_pre_traversal(e):
            for c in type(n).__mro__:
                if isinstance(c, type) and issubclass(c, Expr) and c not in classes:
                    classes.append(c)
        table = {}
        for c in classes:
            if c is Expr or rng.random() < 0.4:
                kind = KINDS[int(rng.integers(0, len(KINDS)))]
                if c is Expr and kind == "cut":
                    kind = "keep"
                table[c] = (kind, int(rng.integers(1, 3)), int(rng.integers(1, 3)))

        class ContextAlgorithm(DAGTraverser):
            @singledispatchmethod
            def process(self, o, a=0, b=0):
                return super().process(o)

        def child_context(kind, va, vb, a, b):
            return {"keep": (a, b), "seta": (va, 0), "setb": (0, vb), "ab": (va, vb), "ba": (va, vb), "none": (0, 0)}[kind]

        def make_rule(c, kind, va, vb):
            def rule(self, o, a=0, b=0):
                if kind == "cut":
                    return f"{c.__name__}<{a},{b}>[{type(o).__name__}]"
                if kind == "keep":
                    ops = [self(op, a=a, b=b) for op in o.ufl_operands]
                elif kind == "seta":
                    ops = [self(op, a=va) for op in o.ufl_operands]
                elif kind == "setb":
                    ops = [self(op, b=vb) for op in o.ufl_operands]
                elif kind == "ab":
                    ops = [self(op, a=va, b=vb) for op in o.ufl_operands]
                elif kind == "ba":
                    ops = [self(op, b=vb, a=va) for op in o.ufl_operands]
                else:
                    ops = [self(op) for op in o.ufl_operands]
                return f"{c.__name__}<{a},{b}>({','.join(ops)})"
            return rule

        for c, (kind, va, vb) in table.items():
            ContextAlgorithm.process.register(c)(make_rule(c, kind, va, vb))

        memo = {}

        def ref(n, a, b):
            stack = [(n, a, b)]
            while stack:
                x, a_, b_ = stack[-1]
                key = (id(x), a_, b_)
                if key in memo:
                    stack.pop()
                    continue
                c = next(c for c in type(x).__mro__ if c in table)
                kind, va, vb = table[c]
                if kind == "cut":
                    memo[key] = f"{c.__name__}<{a_},{b_}>[{type(x).__name__}]"
                    stack.pop()
                    continue
                ca, cb = child_context(kind, va, vb, a_, b_)
                todo = [(o, ca, cb) for o in x.ufl_operands if (id(o), ca, cb) not in memo]
                if todo:
                    stack.extend(todo)
                    continue
                memo[key] = f"{c.__name__}<{a_},{b_}>({','.join(memo[(id(o), ca, cb)] for o in x.ufl_operands)})"
                stack.pop()
            return memo[(id(n), a, b)]

        exp = ref(e, 0, 0)
        T = ContextAlgorithm(compress=case["compress"])
        try:
            got = T(e)
        except RecursionError:
            raise Discard("expression too deep for the recursive DAGTraverser")
        if got != exp:
            raise Violation(f"DAGTraverser with keyword context differs from recursive application: {str(got)[:150]} vs {str(exp)[:150]}",
                            {"kind": "dagtraverser-context"})


def check_case(case):
    import ufl

    b = SharedBuilder(case["world"], case.get("vars", ()), case.get("plain", ()))
    try:
        e = ufl.as_ufl(b.build(case["expr"]))
        # make sure every shared expression occurs at least twice: e * shared-based scalar
        exprs = [e]
        for k in range(len(case["vars"])):
            exprs.append(ufl.as_ufl(b.var(k)))  # (math functions of literals fold to python numbers)
        if case["kind"] == "chain":
            x = e
            f = b.fields["f0"]
            for i in range(case["extra"]["chain"]):
                x = x + f if i % 2 else x * 2
                if x.ufl_shape != e.ufl_shape:
                    break
            exprs[0] = e = x
        elif case["kind"] == "wide" and e.ufl_shape == ():
            w = case["extra"]["wide"]
            e = ufl.as_vector([e * (k % 3 + 1) if k % 2 else e for k in range(w)])
            exprs[0] = e
        elif case["kind"] == "copy":
            # a structurally equal but distinct object next to the original
            b2 = SharedBuilder(case["world"], case.get("vars", ()), case.get("plain", ()))
            b2.fields, b2.idx, b2.x, b2.mesh = b.fields, b.idx, b.x, b.mesh
            e2 = ufl.as_ufl(b2.build(case["expr"]))
            if e2.ufl_shape == e.ufl_shape and e2.ufl_free_indices == e.ufl_free_indices:
                e = ufl.as_tensor([e, e2]) if not e.ufl_free_indices else e
                exprs[0] = e
    except RecursionError:
        raise
    except Exception as ex:
        raise Discard("build:" + type(ex).__name__)
    rng = np.random.default_rng(case["table_seed"])
    K = Keys()
    size, ndistinct = check_traversals(e, K)
    check_cutoff(e, K, rng)
    if case["algo"] == "multifunction":
        used = check_multifunction(case, exprs, K, rng)
    elif case["algo"] == "transformer":
        used = check_transformer(case, exprs, K, rng, b)
    else:
        used = check_dagtraverser(case, exprs, K, rng)
        check_dagtraverser_context(case, exprs, K, rng)
    shared = size > ndistinct + sum(1 for _ in ufl.corealg.traversal.traverse_unique_terminals(e))
    labels = ["algo:" + case["algo"], "kind:" + case["kind"]] + (["shared"] if shared else [])
    return {"nontrivial": shared and len(used) >= 3, "labels": labels}

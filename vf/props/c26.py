"""C26 Reference cell topology is internally consistent -- exhaustive.

Cells: the 10 named cells, simplex(d)/hypercube(d) for d=0..4, TensorProductCell of 1..3 named factors with
total dimension <= 3.  Ordering laws are checked on all pairs and triples of that universe.
"""

import itertools

from vf.common import Violation

LEVEL = "exploration"
EXHAUSTIVE = True
RULE = (
    "exhaustive enumeration: one 'topology' case per cell (Euler-Poincare, sub-entity recursion, "
    "facet/ridge/peak accessors, facet-ridge incidence 2*f_{d-2} = sum of facet facets) and one 'order' case per cell a "
    "(all pairs (a,b) and triples (a,b,c)); non-trivial = cell of dimension >= 1 / row with at least one a<b; "
    "distinct = distinct (kind, cell)"
)
ASSUMPTIONS = [
    "TensorProductCell.num_sub_entities/sub_entities raise NotImplementedError for intermediate dimensions; "
    "laws needing those counts are skipped for such cells (counted under label tp_partial)",
]
BUDGET = {"quick": {"examples": 0, "seconds": 600}, "thorough": {"examples": 0, "seconds": 1200}}
CASE_TIMEOUT = {"quick": 300, "thorough": 600}

NAMED = ["vertex", "interval", "triangle", "quadrilateral", "tetrahedron", "hexahedron", "prism", "pyramid",
         "pentatope", "tesseract"]
DIM = {"vertex": 0, "interval": 1, "triangle": 2, "quadrilateral": 2, "tetrahedron": 3, "hexahedron": 3, "prism": 3,
       "pyramid": 3, "pentatope": 4, "tesseract": 4}
# f-vectors known from geometry (own table): counts of entities of dimension 0..d
FVEC = {
    "vertex": [1], "interval": [2, 1], "triangle": [3, 3, 1], "quadrilateral": [4, 4, 1],
    "tetrahedron": [4, 6, 4, 1], "hexahedron": [8, 12, 6, 1], "prism": [6, 9, 5, 1], "pyramid": [5, 8, 5, 1],
    "pentatope": [5, 10, 10, 5, 1], "tesseract": [16, 32, 24, 8, 1],
}
FACETS = {
    "interval": ["vertex"] * 2, "triangle": ["interval"] * 3, "quadrilateral": ["interval"] * 4,
    "tetrahedron": ["triangle"] * 4, "hexahedron": ["quadrilateral"] * 6,
    "prism": ["triangle"] * 2 + ["quadrilateral"] * 3, "pyramid": ["triangle"] * 4 + ["quadrilateral"],
    "pentatope": ["tetrahedron"] * 5, "tesseract": ["hexahedron"] * 8,
}


def universe():
    u = [["cell", n] for n in NAMED]
    u += [["simplex", d] for d in range(5)] + [["hypercube", d] for d in range(5)]
    small = [n for n in NAMED if DIM[n] <= 3]
    for k in (1, 2, 3):
        for combo in itertools.product(small, repeat=k):
            if sum(DIM[c] for c in combo) <= 3:
                u.append(["tp", list(combo)])
    return u


def build(spec):
    import ufl.cell as C

    if spec[0] == "cell":
        return C.Cell(spec[1])
    if spec[0] == "simplex":
        return C.simplex(spec[1])
    if spec[0] == "hypercube":
        return C.hypercube(spec[1])
    return C.TensorProductCell(*[C.Cell(n) for n in spec[1]])


def enumerate_cases(tier):
    u = universe()
    return [{"kind": "topology", "cell": s} for s in u] + [{"kind": "order", "cell": s} for s in u]


def counts(c):
    d = c.topological_dimension
    out = []
    for k in range(d + 1):
        try:
            out.append(c.num_sub_entities(k))
        except NotImplementedError:
            out.append(None)
    return out


def check_topology(spec, depth=0):
    c = build(spec)
    d = c.topological_dimension
    V = lambda msg, kind: Violation(f"{spec}: {msg}", {"kind": kind, "cell": spec})
    if not isinstance(d, int) or d < 0:
        raise V(f"bad topological dimension {d!r}", "tdim")
    f = counts(c)
    labels = []
    if None in f:
        labels.append("tp_partial")
    else:
        euler = sum((-1) ** k * f[k] for k in range(d + 1))
        if euler != 1:
            raise V(f"Euler-Poincare: f-vector {f} has alternating sum {euler} != 1", "euler")
    if f[d] != 1:
        raise V(f"a cell must have exactly one sub-entity of its own dimension, got {f[d]}", "self-count")
    if c.num_sub_entities(-1) != 0 or c.num_sub_entities(d + 1) != 0:
        raise V("entities outside 0..tdim must have count 0", "range")
    name = c.cellname if spec[0] != "tp" else None
    if name in FVEC and f != FVEC[name]:
        raise V(f"f-vector {f} differs from geometry table {FVEC[name]}", "fvector")
    if spec[0] == "simplex" and f != FVEC[["vertex", "interval", "triangle", "tetrahedron", "pentatope"][spec[1]]]:
        raise V(f"simplex({spec[1]}) f-vector {f}", "fvector")
    if spec[0] == "hypercube" and f != FVEC[["vertex", "interval", "quadrilateral", "hexahedron", "tesseract"][spec[1]]]:
        raise V(f"hypercube({spec[1]}) f-vector {f}", "fvector")
    # sub-entities: right number, right dimension, recursively consistent
    for k in range(d + 1):
        if f[k] is None:
            continue
        try:
            ents = c.sub_entities(k)
            types = c.sub_entity_types(k)
        except NotImplementedError:
            continue
        if len(ents) != f[k]:
            raise V(f"sub_entities({k}) has {len(ents)} entries, num_sub_entities says {f[k]}", "count-vs-list")
        for e in ents:
            if e.topological_dimension != k:
                raise V(f"sub-entity {e!r} of dimension {k} has topological_dimension {e.topological_dimension}", "subdim")
        tn = sorted(str(t.cellname) for t in types)
        en = sorted(set(str(e.cellname) for e in ents))
        if tn != en:
            raise V(f"sub_entity_types({k}) = {tn} but the entities have types {en}", "types")
        if k < d and depth < 4:
            for nm in en:
                if nm in NAMED:
                    check_topology(["cell", nm], depth + 1)
    # accessors
    acc = [("num_vertices", 0), ("num_edges", 1), ("num_faces", 2), ("num_facets", d - 1), ("num_ridges", d - 2), ("num_peaks", d - 3)]
    for nm, k in acc:
        exp = f[k] if 0 <= k <= d else 0
        if exp is None:
            continue
        try:
            got = getattr(c, nm)
        except NotImplementedError:
            continue
        if got != exp:
            raise V(f"{nm} = {got} but num_sub_entities({k}) = {exp}", "accessor")
    acc2 = [("vertices", 0), ("edges", 1), ("faces", 2), ("facets", d - 1), ("ridges", d - 2), ("peaks", d - 3)]
    for nm, k in acc2:
        try:
            got = getattr(c, nm)
            exp = c.sub_entities(k) if 0 <= k <= d else ()
            gt = getattr(c, nm[:-1] + "_types" if nm != "vertices" else "vertex_types")
            et = c.sub_entity_types(k) if 0 <= k <= d else ()
        except NotImplementedError:
            continue
        if [str(x.cellname) for x in got] != [str(x.cellname) for x in exp]:
            raise V(f"{nm} differs from sub_entities({k})", "accessor-list")
        if any(x.topological_dimension != k for x in got):
            raise V(f"{nm} contains an entity of the wrong dimension", "accessor-dim")
        if sorted(str(x.cellname) for x in gt) != sorted(str(x.cellname) for x in et):
            raise V(f"{nm} types differ from sub_entity_types({k})", "accessor-types")
    # geometry tables for named cells
    if name in FACETS:
        got = sorted(str(x.cellname) for x in c.facets)
        if got != sorted(FACETS[name]):
            raise V(f"facets {got} differ from geometry table {sorted(FACETS[name])}", "facet-table")
    # incidence: every ridge lies in exactly two facets
    if d >= 2 and None not in f:
        try:
            tot = sum(x.num_facets for x in c.facets)
            if tot != 2 * f[d - 2]:
                raise V(f"sum of facet facets {tot} != 2 * ridges {f[d - 2]}", "ridge-incidence")
        except NotImplementedError:
            pass
    if spec[0] == "cell":
        if c.is_simplex != (spec[1] in ("vertex", "interval", "triangle", "tetrahedron", "pentatope")):
            # pentatope is a simplex mathematically; ufl's is_simplex list omits it -> only report named 0..3
            if spec[1] != "pentatope":
                raise V(f"is_simplex = {c.is_simplex}", "is_simplex")
    return labels, d


_cache = {}


def order_table():
    if "t" not in _cache:
        u = universe()
        objs = [build(s) for s in u]
        n = len(u)
        lt = [[None] * n for _ in range(n)]
        eq = [[None] * n for _ in range(n)]
        for i in range(n):
            for j in range(n):
                try:
                    lt[i][j] = objs[i] < objs[j]
                except ValueError:
                    lt[i][j] = "error"
                eq[i][j] = objs[i] == objs[j]
        _cache["t"] = (u, objs, lt, eq)
    return _cache["t"]


def check_case(case):
    spec = case["cell"]
    if case["kind"] == "topology":
        labels, d = check_topology(spec)
        return {"nontrivial": d >= 1, "labels": ["topology"] + labels}
    u, objs, lt, eq = order_table()
    i = u.index(spec)
    n = len(u)
    V = lambda msg, kind, **kw: Violation(msg, dict(kind=kind, cell=spec, **kw))
    nlt = 0
    for j in range(n):
        a, b = lt[i][j], lt[j][i]
        if not isinstance(a, bool):
            raise V(f"{spec} < {u[j]} returned {a!r}", "order-nonbool", other=u[j])
        if eq[i][j] != eq[j][i]:
            raise V(f"== not symmetric for {spec}, {u[j]}", "eq-symmetry", other=u[j])
        if eq[i][j]:
            if a or b:
                raise V(f"irreflexive: {spec} < {u[j]} although they are equal", "irreflexive", other=u[j])
            if hash(objs[i]) != hash(objs[j]):
                raise V(f"equal cells with different hash: {spec}, {u[j]}", "hash", other=u[j])
        else:
            if a and b:
                raise V(f"asymmetry: {spec} < {u[j]} and {u[j]} < {spec}", "asymmetric", other=u[j])
            if not a and not b:
                raise V(f"totality: neither {spec} < {u[j]} nor {u[j]} < {spec} and they are not equal", "total", other=u[j])
        nlt += bool(a)
    row = lt[i]
    for j in range(n):
        if row[j] is not True:
            continue
        rj = lt[j]
        for k in range(n):
            if rj[k] is True and row[k] is not True:
                raise V(f"transitivity: {spec} < {u[j]} < {u[k]} but not {spec} < {u[k]}", "transitive", b=u[j], c=u[k])
    # equality must be the equivalence induced by the spec (same cell <=> equal)
    return {"nontrivial": nlt > 0, "labels": ["order"]}

"""C07 Geometry lowering computes the geometric quantities of the actual cell.

Complete grid  quantity x cell x gdim x facet (x ridge) x preserve-set,  each with several random non-degenerate
vertex sets (aspect ratio up to 50, both orientations).  Oracle: the quantity computed *directly from the vertices*
(Gram-determinant volumes, circumcentre solve, vertex distances, Gram-Schmidt normals, pseudo-inverses by
numpy.linalg) == value of apply_geometry_lowering(q) evaluated with the Jacobian/reference-cell terminals of the
same cell.  Sign-convention quantities (CellNormal) are checked by a validity predicate.
"""

import os

import numpy as np

from vf.common import Discard, Violation
from vf.interp import Env, Interp, Unsupported, close
from vf.props.valuecommon import Guard, check_acyclic, eval_output, exc_bucket, rel_err
from vf.refcell import Geometry, TDIM

LEVEL = "exploration"
EXHAUSTIVE = True
RULE = (
    "complete enumeration of the grid (geometric quantity type, cell in {interval, triangle, tetrahedron}, gdim in "
    "tdim..3, facet, ridge for ridge quantities, preserve_types in a fixed list) times N random vertex sets per grid "
    "point (N=6 quick, 150 thorough; seeds derived from VERIF_SEED), plus all ordered pairs q1/q2 of the ten scalar "
    "quantities in one expression on every admissible cell (first and last facet); non-trivial = the lowering actually rewrote "
    "the quantity (result is not the input terminal); distinct = distinct (grid point, vertex seed)."
)
ASSUMPTIONS = [
    "direct geometry oracle of vf/refcell.py (validated against Euler/Heron/Cayley-Menger identities in selftest)",
    "CellNormal: validity predicate (unit, orthogonal to the cell, orientation sign) instead of one expected vector",
]
BUDGET = {"quick": {"examples": 0, "seconds": 300}, "thorough": {"examples": 0, "seconds": 1500}}
CASE_TIMEOUT = {"quick": 60, "thorough": 120}

QUANT = ["Jacobian", "JacobianInverse", "JacobianDeterminant", "FacetJacobian", "FacetJacobianInverse",
         "FacetJacobianDeterminant", "RidgeJacobian", "RidgeJacobianInverse", "RidgeJacobianDeterminant",
         "SpatialCoordinate", "CellCoordinate", "CellVolume", "FacetArea", "Circumradius", "MinCellEdgeLength",
         "MaxCellEdgeLength", "CellDiameter", "MinFacetEdgeLength", "MaxFacetEdgeLength", "CellNormal", "FacetNormal"]
PRESERVE = [[], ["Jacobian"], ["JacobianDeterminant"], ["JacobianInverse"], ["Jacobian", "JacobianInverse", "JacobianDeterminant"]]
CELLS = [("interval", 1), ("interval", 2), ("interval", 3), ("triangle", 2), ("triangle", 3), ("tetrahedron", 3)]


def admissible(q, cell, g):
    t = TDIM[cell]
    if q.startswith("Facet") and q not in ("FacetNormal", "FacetArea") and t < 2:
        return False
    if "Ridge" in q and t < 3:
        return False
    if q in ("MinFacetEdgeLength", "MaxFacetEdgeLength") and t < 3:
        return False
    if q == "CellNormal" and t != g - 1:
        return False
    return True


def enumerate_cases(tier):
    seed0 = int(os.environ.get("VERIF_SEED", "1"))
    n = 6 if tier == "quick" else 150
    out = []
    for q in QUANT:
        for cell, g in CELLS:
            if not admissible(q, cell, g):
                continue
            t = TDIM[cell]
            facet_dep = q.startswith("Facet") or q in ("MinFacetEdgeLength", "MaxFacetEdgeLength")
            facets = range(t + 1) if facet_dep else [0]
            ridges = range(6) if "Ridge" in q else [0]
            for f in facets:
                for r in ridges:
                    for pk, pres in enumerate(PRESERVE):
                        if pk and q in pres:
                            continue
                        if pk and tier == "quick" and (f or r):
                            continue
                        for k in range(n if pk == 0 else max(1, n // 3)):
                            out.append({"q": q, "cell": cell, "gdim": g, "facet": f, "ridge": r, "preserve": pres,
                                        "env_seed": seed0 * 100003 + k})
    # quotients of two scalar quantities in one expression (one lowering pass, shared intermediate results), in
    # both orders
    npair = 2 if tier == "quick" else 20
    for q in SCALARS:
        for q2 in SCALARS:
            if q == q2:
                continue
            for cell, g in CELLS:
                if not (admissible(q, cell, g) and admissible(q2, cell, g)):
                    continue
                t = TDIM[cell]
                for f in sorted({0, t}):
                    for k in range(npair):
                        out.append({"q": q, "q2": q2, "cell": cell, "gdim": g, "facet": f, "ridge": 0, "preserve": [],
                                    "env_seed": seed0 * 100003 + 7919 + k})
    return out


SCALARS = ["CellVolume", "FacetArea", "Circumradius", "MinCellEdgeLength", "MaxCellEdgeLength", "CellDiameter",
           "MinFacetEdgeLength", "MaxFacetEdgeLength", "JacobianDeterminant", "FacetJacobianDeterminant"]


def check_pair(case):
    import ufl
    from ufl.algorithms.apply_geometry_lowering import apply_geometry_lowering

    from vf.elements import make_mesh

    mesh = make_mesh(case["cell"], case["gdim"])
    q1, q2 = getattr(ufl.classes, case["q"])(mesh), getattr(ufl.classes, case["q2"])(mesh)
    rng = np.random.default_rng([case["env_seed"], len(case["q"]), len(case["q2"]), case["facet"]])
    geo = Geometry.random(rng, case["cell"], case["gdim"], max_cond=50.0)
    env = Env(geo, geo.random_facet_point(rng, case["facet"]), facet=case["facet"], seed=case["env_seed"])
    try:
        low = ufl.as_ufl(apply_geometry_lowering(q1 / q2, []))
    except RecursionError:
        raise
    except Exception as ex:
        raise Violation(f"lowering of {case['q']}/{case['q2']} raised {type(ex).__name__}: {str(ex)[:200]}",
                        {"kind": "raised-pair:" + exc_bucket(ex), "q": case["q"], "q2": case["q2"]})
    check_acyclic(low, "output")
    I = Interp(env, order=1)
    got = eval_output(Guard(I, min_den=1e-9), low)
    try:
        exp = float(I._geo(q1, None)) / float(I._geo(q2, None))
    except Unsupported as ex:
        raise Discard("unsupported:" + str(ex)[:30])
    if not close(np.asarray(exp), got, rtol=1e-8, atol=1e-10):
        raise Violation(f"{case['q']}/{case['q2']} on {case['cell']} gdim {case['gdim']} facet {case['facet']}: direct {exp} vs lowered "
                        f"{np.ravel(got)[:2]} (rel err {rel_err(np.asarray(exp), got):.3g})",
                        {"kind": "value-pair", "q": case["q"], "q2": case["q2"], "cell": case["cell"]})
    return {"nontrivial": True, "labels": ["pair", "q:" + case["q"]]}


def check_case(case):
    if case.get("q2"):
        return check_pair(case)
    import ufl
    from ufl.algorithms.apply_geometry_lowering import apply_geometry_lowering

    from vf.elements import make_mesh

    mesh = make_mesh(case["cell"], case["gdim"])
    Q = getattr(ufl.classes, case["q"])
    q = Q(mesh)
    pres = [getattr(ufl.classes, n) for n in case["preserve"]]
    rng = np.random.default_rng([case["env_seed"], len(case["q"]), case["facet"]])
    geo = Geometry.random(rng, case["cell"], case["gdim"], max_cond=50.0)
    t = geo.tdim
    X = geo.random_facet_point(rng, case["facet"])
    env = Env(geo, X, facet=case["facet"], seed=case["env_seed"])
    env.ridge = case["ridge"]
    try:
        if case["q"] == "CellCoordinate":
            # apply_geometry_lowering(expr) lowers CellCoordinate too (only the integral form preserves it)
            low = apply_geometry_lowering(q, pres)
        else:
            low = apply_geometry_lowering(q, pres)
    except RecursionError:
        raise
    except Exception as ex:
        raise Violation(f"lowering of {case['q']} raised {type(ex).__name__}: {str(ex)[:200]}",
                        {"kind": "raised:" + exc_bucket(ex), "q": case["q"]})
    low = ufl.as_ufl(low)
    check_acyclic(low, "output")
    if tuple(low.ufl_shape) != tuple(q.ufl_shape) or low.ufl_free_indices:
        raise Violation(f"{case['q']}: lowered shape {low.ufl_shape} free {low.ufl_free_indices}, expected {q.ufl_shape}",
                        {"kind": "shape", "q": case["q"]})
    I = Interp(env, order=1)
    G = Guard(I, min_den=1e-9)
    got = eval_output(G, low)
    d = {"q": case["q"], "cell": case["cell"], "gdim": case["gdim"], "facet": case["facet"]}
    if case["q"] == "CellNormal":
        ok = geo.cell_normal_ok(got)
        # orientation: co * det[t.., n] > 0
        if ok:
            M = np.column_stack([geo.J, got])
            ok = geo.orientation * np.linalg.det(M) > 0
        if not ok:
            raise Violation(f"CellNormal {got} is not the oriented unit normal of the cell", dict(d, kind="cellnormal"))
    else:
        try:
            exp = np.asarray(I._geo(q, None), dtype=float).reshape(q.ufl_shape) if case["q"] not in ("SpatialCoordinate", "CellCoordinate") else (
                env.x if case["q"] == "SpatialCoordinate" else env.X)
        except Unsupported as ex:
            raise Discard("unsupported:" + str(ex)[:30])
        if not close(exp, got, rtol=1e-8, atol=1e-10):
            raise Violation(f"{case['q']} on {case['cell']} gdim {case['gdim']} facet {case['facet']}: direct {np.ravel(exp)[:4]} "
                            f"vs lowered {np.ravel(got)[:4]} (rel err {rel_err(exp, got):.3g})", dict(d, kind="value"))
    rewritten = not (low._ufl_is_terminal_ and type(low) is type(q))
    return {"nontrivial": rewritten, "labels": ["q:" + case["q"], "preserve:" + ",".join(case["preserve"])]}

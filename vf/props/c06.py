"""C06 Lowering compound tensor algebra preserves values.

Oracle: textbook numpy semantics of the compound node in the reference interpreter (numpy.linalg det/inv/pinv,
einsum contractions with the documented conjugation conventions) == value of apply_algebra_lowering(e) evaluated by
the same interpreter (index notation only); and for the helper functions of ufl.compound_expressions
(determinant_expr, inverse_expr, adj/cofactor/deviatoric/cross, pseudo-determinant/-inverse of m x n matrices)
numpy applied directly to the operand's value.
"""

import math

import numpy as np
from hypothesis import strategies as st

from vf.common import Discard, Violation
from vf.interp import Interp, close
from vf.props.valuecommon import warmup  # noqa: F401
from vf.props.valuecommon import Guard, build_case, check_acyclic, eval_output, exc_bucket, make_env, rel_err, same_type

LEVEL = "exploration"
RULE = (
    "Hypothesis: a compound operator (dot, inner, outer, cross, perp, transpose, tr, det, inv, cofac, dev, skew, sym, "
    "diag, diag_vector) or a compound_expressions helper is drawn first (focus stratification), then operands of every "
    "admissible shape (vectors 1-4, square matrices 1-4, rectangular m x n, rank 3) built from tensor coefficients, "
    "constants, list tensors with zero rows, matrices written entry by entry with literal zeros, scaled sums, operands with a free index, or nested compound expressions; "
    "real and complex data. non-trivial = operand rank >= 1 and dimension >= 2 and the value is not identically "
    "zero; distinct = distinct recipe."
)
ASSUMPTIONS = [
    "matrices with condition number above 1e4 (det/inv/cofac) are discarded",
    "pseudo-determinant/-inverse are checked with real data (as for Jacobians)",
]
BUDGET = {"quick": {"examples": 6000, "seconds": 60}, "thorough": {"examples": 200000, "seconds": 1200}}

UNARY_SQUARE = ["tr", "det", "inv", "cofac", "dev", "skew", "sym", "diag_vector", "diag"]
FOCI = ["dot", "inner", "outer", "cross", "perp", "T", "tr", "det", "inv", "cofac", "dev", "skew", "sym", "diag",
        "diag_vector", "fn:determinant_expr", "fn:inverse_expr", "fn:adj_expr", "fn:cofactor_expr",
        "fn:deviatoric_expr", "fn:cross_expr", "fn:pseudo_determinant_expr", "fn:pseudo_inverse_expr",
        "fn:generic_pseudo_determinant_expr", "fn:generic_pseudo_inverse_expr", "fn:codeterminant",
        "curl", "divop", "nabla_grad", "nabla_div"]
DIFF_FOCI = ("curl", "divop", "nabla_grad", "nabla_div")


class W:
    """incremental world: tensor coefficients / constants of arbitrary shape"""

    def __init__(self, draw, cell, g):
        self.draw = draw
        self.world = {"cell": cell, "gdim": g, "fields": {}}

    def fld(self, shape):
        k = self.draw(st.integers(0, 1))
        kind = self.draw(st.sampled_from(["coef", "coef", "const"]))
        name = ("T" if kind == "coef" else "C") + "x".join(map(str, shape)) + "_" + str(k)
        if kind == "coef":
            self.world["fields"][name] = {"kind": "coef", "elem": ["P", 1, list(shape)], "shape": list(shape)}
        else:
            self.world["fields"][name] = {"kind": "const", "shape": list(shape)}
        return ["fld", name]

    def operand(self, shape, depth, free=False):
        draw = self.draw
        shape = tuple(shape)
        opts = ["fld", "fld"]
        if depth > 0:
            opts += ["sum", "scale"]
            if shape:
                opts += ["list"]
            if len(shape) == 2:
                opts += ["T", "matmul", "outer", "sparse", "sparse"]
                if shape[0] == shape[1]:
                    opts += ["sym", "skew"]
            if len(shape) == 1:
                opts += ["matvec"]
            if len(shape) <= 2:
                opts += ["slice"]
        k = draw(st.sampled_from(opts))
        d = depth - 1
        if k == "fld":
            return self.fld(shape)
        if k == "sum":
            return ["add", self.operand(shape, d), self.operand(shape, d)]
        if k == "scale":
            return ["mul", ["lit", draw(st.sampled_from([2, -1, 0.5, 3]))], self.operand(shape, d)]
        if k == "list":
            items = []
            for _ in range(shape[0]):
                z = draw(st.integers(0, 3))
                if z == 0:
                    items.append(["zero", list(shape[1:])])
                elif z == 1 and len(shape) == 1:
                    items.append(["lit", draw(st.sampled_from([1, 2, -1.5]))])
                else:
                    items.append(self.operand(shape[1:], 0))
            return ["list", items]
        if k == "sparse":
            # a matrix written entry by entry with literal zeros (rotation / permutation / skew patterns)
            rows = []
            for _ in range(shape[0]):
                row = []
                for _ in range(shape[1]):
                    z = draw(st.integers(0, 5))
                    row.append(["zero", []] if z <= 1 else (["lit", draw(st.sampled_from([1, -1, 2, 0.5]))] if z == 2 else self.operand((), 0)))
                rows.append(["list", row])
            return ["list", rows]
        if k == "T":
            return ["T", self.operand(shape[::-1], d)]
        if k == "matmul":
            m = draw(st.integers(1, 3))
            return ["dot", self.operand((shape[0], m), d), self.operand((m, shape[1]), d)]
        if k == "outer":
            return ["outer", self.operand((shape[0],), d), self.operand((shape[1],), d)]
        if k in ("sym", "skew"):
            return [k, self.operand(shape, d)]
        if k == "matvec":
            m = draw(st.integers(1, 3))
            return ["dot", self.operand((shape[0], m), d), self.operand((m,), d)]
        if k == "slice":
            n = draw(st.integers(1, 3))
            pos = draw(st.integers(0, len(shape)))
            big = shape[:pos] + (n,) + shape[pos:]
            ix = [":"] * len(big)
            ix[pos] = draw(st.integers(0, n - 1))
            return ["index", self.operand(big, d), ix]
        raise AssertionError(k)


@st.composite
def cases(draw, tier):
    cell = draw(st.sampled_from(["interval", "triangle", "tetrahedron"]))
    g = {"interval": 1, "triangle": 2, "tetrahedron": 3}[cell]
    w = W(draw, cell, g)
    focus = draw(st.sampled_from(FOCI))
    if focus in DIFF_FOCI:
        # compound differential operators: the lowered form still contains Grad of a *non-terminal*, which the
        # reference interpreter differentiates by jets (apply_derivatives is not involved here)
        depth = draw(st.integers(0, 2))
        if focus == "curl":
            cell, g, sh = draw(st.sampled_from([("triangle", 2, ()), ("triangle", 2, (2,)), ("tetrahedron", 3, (3,))]))
            w = W(draw, cell, g)
        elif focus == "divop":
            sh = draw(st.sampled_from([(g,), (draw(st.integers(1, 3)), g), (2, 2, g)]))
        elif focus == "nabla_div":
            sh = draw(st.sampled_from([(g,), (g, draw(st.integers(1, 3))), (g, 2, 2)]))
        else:
            sh = draw(st.sampled_from([(), (draw(st.integers(1, 3)),), (2, 3)]))
        a = w.operand(sh, depth)
        if draw(st.booleans()):
            a = ["mul", ["fn", "sin", w.fld(())], a]
        return {"world": w.world, "expr": [focus, a], "focus": focus, "wrap": None, "cplx": False,
                "env_seed": draw(st.integers(0, 10**6))}
    depth = draw(st.integers(0, 2))
    dim = lambda lo=1, hi=4: draw(st.integers(lo, hi))
    wrap = None
    if focus == "dot":
        ra, rb = draw(st.sampled_from([(1, 1), (2, 1), (1, 2), (2, 2), (3, 1), (3, 2), (1, 3), (2, 3), (0, 1), (2, 0)]))
        c = dim()
        sa = tuple(dim(1, 3) for _ in range(max(ra - 1, 0))) + ((c,) if ra else ())
        sb = ((c,) if rb else ()) + tuple(dim(1, 3) for _ in range(max(rb - 1, 0)))
        e = ["dot", w.operand(sa, depth), w.operand(sb, depth)]
    elif focus == "inner":
        r = draw(st.integers(0, 3))
        sh = tuple(dim(1, 4 if r < 3 else 3) for _ in range(r))
        e = ["inner", w.operand(sh, depth), w.operand(sh, depth)]
    elif focus == "outer":
        ra, rb = draw(st.sampled_from([(0, 1), (1, 0), (1, 1), (1, 2), (2, 1), (2, 2), (0, 0)]))
        e = ["outer", w.operand(tuple(dim(1, 3) for _ in range(ra)), depth), w.operand(tuple(dim(1, 3) for _ in range(rb)), depth)]
    elif focus == "cross":
        e = ["cross", w.operand((3,), depth), w.operand((3,), depth)]
    elif focus == "perp":
        e = ["perp", w.operand((2,), depth)]
    elif focus == "T":
        e = ["T", w.operand((dim(), dim()), depth)]
    elif focus in ("tr", "skew", "sym", "diag_vector"):
        n = dim()
        e = [focus, w.operand((n, n), depth)]
    elif focus == "diag":
        n = dim()
        e = ["diag", w.operand((n, n) if draw(st.booleans()) else (n,), depth)]
    elif focus in ("det", "inv"):
        n = dim()
        e = [focus, w.operand((n, n), depth)] if draw(st.integers(0, 5)) else [focus, w.operand((), depth)]
    elif focus == "cofac":
        n = dim(2, 4)
        e = ["cofac", w.operand((n, n), depth)]
    elif focus == "dev":
        n = dim(2, 3)
        e = ["dev", w.operand((n, n), depth)]
    else:
        fn = focus[3:]
        if fn in ("determinant_expr", "inverse_expr"):
            m, n = draw(st.sampled_from([(1, 1), (2, 2), (3, 3), (4, 4), (2, 1), (3, 1), (3, 2), (4, 1), (4, 2), (4, 3)]))
        elif fn in ("adj_expr", "cofactor_expr"):
            m = n = dim(2, 4)
        elif fn == "deviatoric_expr":
            m = n = dim(2, 3)
        elif fn == "codeterminant":
            m = n = dim(3, 4)
        elif fn == "cross_expr":
            m, n = 3, None
        else:
            m, n = draw(st.sampled_from([(2, 1), (3, 1), (3, 2), (4, 1), (4, 2), (4, 3), (2, 2), (3, 3)]))
        if fn == "cross_expr":
            e = ["fn2", fn, w.operand((3,), depth), w.operand((3,), depth)]
        else:
            e = ["fn1", fn, w.operand((m, n), depth)]
    # operands with a free index: wrap the whole compound in a component tensor over a rank+1 operand (only for
    # node foci whose ufl class admits free indices in operands)
    if focus in ("T", "tr", "sym", "skew", "inner", "outer", "dot") and draw(st.integers(0, 5)) == 0:
        wrap = "free"
    cplx = draw(st.integers(0, 2)) == 0 and not focus.startswith("fn:pseudo") and not focus.startswith("fn:generic")
    return {"world": w.world, "expr": e, "focus": focus, "wrap": wrap, "cplx": cplx, "env_seed": draw(st.integers(0, 10**6))}


def strategy(tier):
    return cases(tier)


def np_semantics(fn, A, B=None):
    if fn == "determinant_expr":
        if A.ndim == 0:
            return A
        if A.shape[0] == A.shape[1]:
            return np.linalg.det(A)
        return np.sqrt(np.linalg.det(A.T @ A))
    if fn in ("pseudo_determinant_expr", "generic_pseudo_determinant_expr"):
        return np.sqrt(np.linalg.det(A.T @ A))
    if fn == "inverse_expr":
        if A.ndim == 0:
            return 1.0 / A
        if A.shape[0] == A.shape[1]:
            return np.linalg.inv(A)
        return np.linalg.inv(A.T @ A) @ A.T
    if fn in ("pseudo_inverse_expr", "generic_pseudo_inverse_expr"):
        return np.linalg.inv(A.T @ A) @ A.T
    if fn == "adj_expr":
        return np.linalg.det(A) * np.linalg.inv(A)
    if fn == "cofactor_expr":
        return np.linalg.det(A) * np.linalg.inv(A).T
    if fn == "deviatoric_expr":
        return A - np.trace(A) / A.shape[0] * np.eye(A.shape[0])
    if fn == "cross_expr":
        return np.cross(A, B)
    if fn == "codeterminant":
        return np.linalg.det(A)
    raise ValueError(fn)


def check_case(case):
    import ufl
    import ufl.compound_expressions as ce
    from ufl.algorithms.apply_algebra_lowering import apply_algebra_lowering
    from ufl.classes import CompoundTensorOperator
    from ufl.corealg.traversal import unique_pre_traversal

    focus = case["focus"]
    e_rec = case["expr"]
    from vf.build import Builder

    b = Builder(case["world"])
    nontrivial_shape = False
    if e_rec[0] in ("fn1", "fn2"):
        fn = e_rec[1]
        try:
            A = b.build(e_rec[2])
            B = b.build(e_rec[3]) if e_rec[0] == "fn2" else None
        except Exception as ex:
            raise Discard("build:" + type(ex).__name__)
        A = apply_algebra_lowering(A)
        if B is not None:
            B = apply_algebra_lowering(B)
        try:
            if fn == "codeterminant":
                n = A.ufl_shape[0]
                out = ce.codeterminant_expr_nxn(A, list(range(n)), list(range(n)))
            elif B is not None:
                out = getattr(ce, fn)(A, B)
            else:
                out = getattr(ce, fn)(A)
            out = ufl.as_ufl(out)
        except RecursionError:
            raise
        except Exception as ex:
            if isinstance(ex, (ValueError, ZeroDivisionError)) and "ivision by zero" in str(ex):
                raise Discard("illcond:singular_literal_operand")
            raise Violation(f"{fn} raised {type(ex).__name__}: {str(ex)[:200]}", {"kind": "raised:" + exc_bucket(ex)})
        check_acyclic(out, "output")
        nonzero = False
        for rep in range(2):
            env = make_env(case, rep, cplx=case["cplx"])
            G = Guard(Interp(env))
            Av = G.value(A)
            Bv = G.value(B) if B is not None else None
            with np.errstate(all="ignore"):
                try:
                    if Av.ndim == 2:
                        M = Av if Av.shape[0] == Av.shape[1] else Av.T @ Av
                        if fn not in ("deviatoric_expr",) and np.linalg.cond(M) > 1e4:
                            raise Discard("illcond:matrix_condition")
                    exp = np_semantics(fn, Av, Bv)
                except np.linalg.LinAlgError:
                    raise Discard("illcond:singular")
            got = eval_output(G, out)
            if np.shape(exp) != np.shape(got):
                raise Violation(f"{fn}: shape {np.shape(got)} instead of {np.shape(exp)}", {"kind": "shape", "focus": focus})
            if not np.all(np.isfinite(exp)):
                raise Discard("illcond:nonfinite")
            if not close(exp, got, rtol=1e-7, atol=1e-9):
                raise Violation(f"{fn}: numpy {np.ravel(exp)[:4]} vs ufl expression {np.ravel(got)[:4]} (rel err {rel_err(exp, got):.3g})",
                                {"kind": "value", "focus": focus, "shape": list(np.shape(Av))})
            nonzero |= bool(np.any(np.abs(exp) > 1e-12))
        sh = A.ufl_shape
        return {"nontrivial": nonzero and len(sh) >= 1 and max(sh) >= 2, "labels": ["focus:" + focus, "complex" if case["cplx"] else "real"]}
    # ---- compound node
    try:
        e = b.build(e_rec)
        if not isinstance(e, ufl.core.expr.Expr):
            e = ufl.as_ufl(e)
        if case.get("wrap") == "free":
            # same compound operator applied to operands that carry a free index
            i = b.idx["i0"]
            ops = [b.build(x) for x in e_rec[1:]]
            n = 2
            big = ufl.as_tensor([ops[0], 2 * ops[0]])  # rank+1 operand
            op0 = big[i, ...] if ops[0].ufl_shape else big[i]
            fnmap = {"T": lambda a: a.T, "tr": ufl.tr, "sym": ufl.sym, "skew": ufl.skew}
            if focus in fnmap:
                e = fnmap[focus](op0)
            else:
                e = getattr(ufl, focus)(op0, ops[1])
    except RecursionError:
        raise
    except Exception as ex:
        raise Discard("build:" + type(ex).__name__)
    check_acyclic(e, "input")
    try:
        low = apply_algebra_lowering(e)
    except RecursionError:
        raise
    except Exception as ex:
        if isinstance(ex, (ValueError, ZeroDivisionError)) and "ivision by zero" in str(ex):
            raise Discard("illcond:singular_literal_operand")
        if focus in DIFF_FOCI and "geometric dimension" in str(ex):
            # derivative of a literal zero component (no domain): rejected by ufl, outside the must-succeed stratum
            raise Discard("rejected:derivative_of_literal")
        raise Violation(f"lowering raised {type(ex).__name__}: {str(ex)[:200]}", {"kind": "raised:" + exc_bucket(ex)})
    check_acyclic(low, "output")
    if not same_type(e, low):
        raise Violation(f"shape/free indices changed: {e.ufl_shape},{e.ufl_free_indices} -> {low.ufl_shape},{low.ufl_free_indices}",
                        {"kind": "type-changed", "focus": focus})
    from ufl.classes import CompoundDerivative

    for n in unique_pre_traversal(low):
        if isinstance(n, (CompoundTensorOperator, CompoundDerivative)) and type(n).__name__ not in ("Grad", "ReferenceGrad"):
            raise Violation(f"compound operator {type(n).__name__} survives lowering", {"kind": "not-lowered"})
    nonzero = False
    from vf.interp import derivative_depth

    order = max(derivative_depth(e), derivative_depth(low))
    for rep in range(2):
        env = make_env(case, rep, cplx=case["cplx"])
        G = Guard(Interp(env, order=order))
        a = G.value(e)
        bv = eval_output(G, low)
        if not close(a, bv, rtol=1e-7, atol=1e-9):
            raise Violation(f"{focus}: compound semantics {np.ravel(a)[:4]} vs lowered {np.ravel(bv)[:4]} (rel err {rel_err(a, bv):.3g})",
                            {"kind": "value", "focus": focus})
        nonzero |= bool(np.any(np.abs(a) > 1e-12))
    shapes = [tuple(f["shape"]) for f in case["world"]["fields"].values()]
    nts = any(len(s) >= 1 and max(s) >= 2 for s in shapes)
    labels = ["focus:" + focus, "complex" if case["cplx"] else "real"] + (["free_index_operand"] if case.get("wrap") else [])
    return {"nontrivial": nonzero and nts, "labels": labels}

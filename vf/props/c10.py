"""C10 Index rewriting passes are value-preserving and hygienic.

Passes: remove_component_tensors, renumber_indices, expand_indices (on scalar integrands after algebra lowering and
derivative expansion), and the composition used by compute_form_data.  Oracle: the reference interpreter's value of
input and output on two random cells (free indices are array axes, so an index that is captured, dropped or
renamed inconsistently changes shape or value), equality of the free-index set, and for expand_indices the absence
of any Index in the result.
"""

import itertools

import numpy as np
from hypothesis import strategies as st

from vf.common import Discard, Violation
from vf.gen import Gen, Profile, ops_in, worlds
from vf.interp import Interp, close, derivative_depth
from vf.props.valuecommon import warmup  # noqa: F401
from vf.props.valuecommon import Guard, build_case, check_acyclic, eval_output, exc_bucket, make_env, rel_err

LEVEL = "exploration"
RULE = (
    "Hypothesis recipes in index notation with only four index names, so the same Index object is re-used in sibling "
    "and nested summation / component-tensor scopes; component tensors indexed by indices that are bound inside them; "
    "variables used several times with different components; one component tensor indexed twice with different indices; "
    "zero tensors with free indices (also of different extents); nested component and "
    "list tensors; optional spatial derivatives (expanded first). One pass is drawn per case. non-trivial = the "
    "input contains a component tensor, an index sum or a variable and the pass changed the expression; "
    "distinct = distinct (recipe, pass)."
)
ASSUMPTIONS = [
    "renumber_indices also renames free indices (it is applied to whole integrands); its output is compared up to a "
    "permutation of the free-index axes with equal dimensions",
    "expand_indices is applied to scalar expressions without free indices after apply_algebra_lowering and "
    "apply_derivatives, as its callers do",
]
BUDGET = {"quick": {"examples": 8000, "seconds": 60}, "thorough": {"examples": 250000, "seconds": 1500}}

PROFILE = Profile(
    ops={"arith", "index", "tensor", "var", "cond", "math", "pow", "shortcut", "abs", "capture", "zerofree", "ctreuse"},
    leaves={"coef", "const", "lit", "zero", "x"},
    max_rank=2, elements="lagrange", manifolds=False, nindex=4,
    weights={"var": 2, "comp": 4, "indexfree": 4, "contract": 3, "mul": 3},
)
PROFILE_D = Profile(
    ops={"arith", "index", "tensor", "var", "cond", "math", "pow", "compound", "deriv", "abs", "zerofree", "ctreuse"},
    leaves={"coef", "const", "lit", "zero", "x"},
    max_rank=2, elements="all", manifolds=True, nindex=4,
    weights={"var": 2, "comp": 3, "indexfree": 3, "contract": 3},
)
PASSES = ["remove_component_tensors", "renumber_indices", "expand_indices", "rct_then_expand", "renumber_form"]


@st.composite
def cases(draw, tier):
    deriv = draw(st.integers(0, 3)) == 0
    prof = PROFILE_D if deriv else PROFILE
    world = draw(worlds(prof))
    G = Gen(draw, world, prof)
    g = world["gdim"]
    p = draw(st.sampled_from(PASSES))
    if p in ("expand_indices", "rct_then_expand", "renumber_form"):
        sh, free = (), ()
    else:
        sh = draw(st.sampled_from([(), (), (g,), (g, g)]))
        free = tuple(G.names[: draw(st.integers(0, 2 if len(sh) < 2 else 1))])
    e = G.expr(sh, free, draw(st.integers(2, 4)))
    return {"world": world, "expr": e, "vars": G.vars, "pass": p, "deriv": deriv, "env_seed": draw(st.integers(0, 10**6))}


def strategy(tier):
    return cases(tier)


def has_index_objects(e):
    from ufl.classes import Index, MultiIndex
    from ufl.corealg.traversal import unique_pre_traversal

    for n in unique_pre_traversal(e):
        if isinstance(n, MultiIndex) and any(isinstance(i, Index) for i in n):
            return True
    return False


def count_types(e):
    from ufl.classes import ComponentTensor, IndexSum, Variable
    from ufl.corealg.traversal import unique_pre_traversal

    c = {"ComponentTensor": 0, "IndexSum": 0, "Variable": 0}
    for n in unique_pre_traversal(e):
        for T in (ComponentTensor, IndexSum, Variable):
            if isinstance(n, T):
                c[T.__name__] += 1
    return c


def check_case(case):
    import ufl
    from ufl.algorithms.apply_algebra_lowering import apply_algebra_lowering
    from ufl.algorithms.apply_derivatives import apply_derivatives
    from ufl.algorithms.expand_indices import expand_indices
    from ufl.algorithms.remove_component_tensors import remove_component_tensors
    from ufl.algorithms.renumbering import renumber_indices

    b, e0 = build_case(case)
    check_acyclic(e0, "input")
    p = case["pass"]
    try:
        e = apply_derivatives(apply_algebra_lowering(e0)) if (case["deriv"] or p in ("expand_indices", "rct_then_expand")) else e0
    except RecursionError:
        raise
    except Exception as ex:
        raise Discard("pre:" + type(ex).__name__)
    try:
        if p == "remove_component_tensors":
            out = remove_component_tensors(e)
        elif p == "renumber_indices":
            out = renumber_indices(e)
        elif p == "expand_indices":
            out = expand_indices(e)
        elif p == "rct_then_expand":
            out = expand_indices(remove_component_tensors(e))
        else:
            form = e * ufl.dx(b.mesh)
            if not form.integrals():
                raise Discard("empty form")
            outf = renumber_indices(form)
            if not outf.integrals():  # an integrand that is identically zero is dropped from the form
                out = ufl.classes.Zero()
            else:
                (itg,) = outf.integrals()
                out = itg.integrand()
        out = ufl.as_ufl(out)
    except Discard:
        raise
    except RecursionError:
        raise
    except Exception as ex:
        raise Violation(f"{p} raised {type(ex).__name__}: {str(ex)[:300]}", {"kind": "raised:" + exc_bucket(ex), "pass": p})
    check_acyclic(out, "output")
    if tuple(out.ufl_shape) != tuple(e.ufl_shape):
        raise Violation(f"{p}: shape {e.ufl_shape} -> {out.ufl_shape}", {"kind": "shape", "pass": p})
    renaming = p in ("renumber_indices", "renumber_form")
    if not renaming and (tuple(out.ufl_free_indices) != tuple(e.ufl_free_indices) or tuple(out.ufl_index_dimensions) != tuple(e.ufl_index_dimensions)):
        raise Violation(f"{p}: free indices {e.ufl_free_indices} -> {out.ufl_free_indices}", {"kind": "free-indices", "pass": p})
    if renaming and sorted(out.ufl_index_dimensions) != sorted(e.ufl_index_dimensions):
        raise Violation(f"{p}: free index dimensions {e.ufl_index_dimensions} -> {out.ufl_index_dimensions}", {"kind": "free-indices", "pass": p})
    if p in ("expand_indices", "rct_then_expand") and has_index_objects(out):
        raise Violation(f"{p}: result still contains Index objects", {"kind": "not-expanded", "pass": p})
    order = max(derivative_depth(e), derivative_depth(out))
    if order > 3:
        raise Discard("derivative order > 3")
    for rep in range(2):
        env = make_env(case, rep)
        G = Guard(Interp(env, order=order))
        a = G.value(e)
        bv = eval_output(G, out)
        ok = close(a, bv, rtol=1e-8, atol=1e-10)
        if not ok and renaming and len(e.ufl_free_indices) > 1:
            r = len(e.ufl_shape)
            nf = len(e.ufl_free_indices)
            for perm in itertools.permutations(range(nf)):
                axes = list(range(r)) + [r + k for k in perm]
                if np.transpose(bv, axes).shape == a.shape and close(a, np.transpose(bv, axes), rtol=1e-8, atol=1e-10):
                    ok = True
                    break
        if not ok:
            raise Violation(f"{p}: value changed: input {np.ravel(a)[:4]} vs output {np.ravel(bv)[:4]}"
                            + (f" (rel err {rel_err(a, bv):.3g})" if a.shape == bv.shape else ""), {"kind": "value", "pass": p})
    ct = count_types(e)
    changed = out is not e
    return {"nontrivial": changed and sum(ct.values()) > 0,
            "labels": ["pass:" + p, "deriv" if case["deriv"] else "plain"] + [k for k, v in ct.items() if v]}

"""C03 Spatial derivatives are lowered to exact derivatives of terminals.

Oracle: value of the *unexpanded* expression by Taylor-mode jets (reference interpreter, no differentiation rules)
== value of apply_derivatives(apply_algebra_lowering(e)) evaluated by the same interpreter (only terminal
derivative towers remain there), on two random affine cells/points; plus the structural predicate that derivatives
act only on terminals in the result.
"""

import numpy as np
from hypothesis import strategies as st

from vf.common import Discard, Violation, khash
from vf.gen import Gen, Profile, count_nodes, ops_in, worlds
from vf.interp import Interp, close, derivative_depth
from vf.props.valuecommon import warmup  # noqa: F401
from vf.props.valuecommon import (Guard, build_case, check_acyclic, eval_output, exc_bucket, make_env, rel_err,
                                  same_type)

LEVEL = "exploration"
RULE = (
    "Hypothesis recipes: a spatial derivative operator (grad, div, curl, nabla_grad, nabla_div, .dx, nested to "
    "depth 3) is forced at the root or just below it over an operand from the full expression grammar; worlds over "
    "interval/triangle/tetrahedron with gdim>=tdim and the element zoo (Piola-mapped coefficients included). "
    "non-trivial = the differentiated operand contains a nonlinear operator (product of two fields, power, "
    "division, math function, conditional) and the oracle derivative is not identically zero; distinct = distinct recipe."
)
ASSUMPTIONS = [
    "reference interpreter semantics (DESIGN 2.4, 7): Grad := ReferenceGrad . K on affine cells, fields are random "
    "reference polynomials of degree 3 pushed forward by the harness' own Piola table",
    "ill-conditioned points (non-finite, |denominator|<1e-3, kink of abs) are discarded and counted",
]
BUDGET = {"quick": {"examples": 2400, "seconds": 60}, "thorough": {"examples": 120000, "seconds": 1200}}

PROFILE = Profile(
    ops={"arith", "math", "cond", "index", "tensor", "compound", "deriv", "pow", "abs", "var", "sign", "math2", "powx",
         "bessel"},
    leaves={"coef", "const", "lit", "x", "geo", "zero", "eye"},
    max_rank=2, elements="all", manifolds=True,
)

DERIV_OPS = ["grad", "divop", "curl", "nabla_grad", "nabla_div", "dx"]
NONLINEAR = {"mul", "pow", "div", "fn", "cond", "abs", "inner", "dot", "outer", "det", "inv", "cofac", "atan2",
             "bessel", "max", "min", "sign", "cross"}


@st.composite
def cases(draw, tier):
    world = draw(worlds(PROFILE))
    g = world["gdim"]
    G = Gen(draw, world, PROFILE)
    depth = draw(st.integers(1, 3))
    focus = draw(st.sampled_from(DERIV_OPS))
    nest = draw(st.integers(1, 3))
    # operand type by focus
    if focus == "grad":
        sh = draw(st.sampled_from([(), (g,), (g, g)]))
    elif focus == "divop":
        sh = draw(st.sampled_from([(g,), (g, g)]))
    elif focus == "curl":
        sh = draw(st.sampled_from([(), (2,)])) if g == 2 else ((3,) if g == 3 else None)
        if sh is None:
            focus, sh = "grad", ()
    elif focus == "nabla_grad":
        sh = draw(st.sampled_from([(), (g,)]))
    elif focus == "nabla_div":
        sh = draw(st.sampled_from([(g,), (g, g)]))
    else:
        sh = draw(st.sampled_from([(), (g,)]))
    operand = G.with_field(G.expr(sh, (), depth), sh, ())
    e = operand
    cur = tuple(sh)
    for k in range(nest):
        f = focus if k == 0 else draw(st.sampled_from(["grad", "divop", "dx", "nabla_grad"]))
        if f == "grad" and len(cur) <= 2:
            e, cur = ["grad", e], cur + (g,)
        elif f == "nabla_grad" and len(cur) <= 2:
            e, cur = ["nabla_grad", e], (g,) + cur
        elif f == "divop" and len(cur) >= 1 and cur[-1] == g:
            e, cur = ["divop", e], cur[:-1]
        elif f == "nabla_div" and len(cur) >= 1 and cur[0] == g:
            e, cur = ["nabla_div", e], cur[1:]
        elif f == "curl" and cur in ((), (2,), (3,)) and (cur != (3,) or g == 3) and (cur == (3,) or g == 2):
            e, cur = ["curl", e], {(): (2,), (2,): (), (3,): (3,)}[cur]
        else:
            e = ["dx", e, [draw(st.integers(0, g - 1))]]
    if draw(st.integers(0, 3)) == 0:
        # derivative inside a larger expression
        e = ["mul", G.expr((), (), 1), e]
    return {"world": world, "expr": e, "vars": G.vars, "env_seed": draw(st.integers(0, 10**6)), "focus": focus}


def strategy(tier):
    return cases(tier)


def on_manifold(case):
    w = case["world"]
    return w["gdim"] > {"interval": 1, "triangle": 2, "tetrahedron": 3}[w["cell"]]


def _has_x(r):
    if isinstance(r, list):
        if r and r[0] == "x":
            return True
        return any(_has_x(x) for x in r)
    return False


def f12_predicate(case):
    """F12: SpatialCoordinate under a spatial derivative on an immersed manifold."""
    return on_manifold(case) and (_has_x(case["expr"]) or any(_has_x(v) for v in case.get("vars", ())))




def structural(low):
    from ufl.classes import (CoefficientDerivative, CompoundDerivative, Grad, ReferenceGrad, ReferenceValue,
                             VariableDerivative)
    from ufl.corealg.traversal import unique_pre_traversal

    for n in unique_pre_traversal(low):
        if isinstance(n, (Grad, ReferenceGrad)):
            (o,) = n.ufl_operands
            if not (o._ufl_is_terminal_ or isinstance(o, (Grad, ReferenceGrad, ReferenceValue))):
                raise Violation(f"derivative of a non-terminal survives expansion: {type(n).__name__}({type(o).__name__})",
                                {"kind": "derivative-of-nonterminal"})
        elif isinstance(n, (CompoundDerivative, VariableDerivative, CoefficientDerivative)):
            raise Violation(f"unexpanded derivative node {type(n).__name__} in the result", {"kind": "unexpanded-derivative"})


def check_case(case):
    from ufl.algorithms.apply_algebra_lowering import apply_algebra_lowering
    from ufl.algorithms.apply_derivatives import apply_derivatives

    b, e = build_case(case)
    check_acyclic(e, "input")
    try:
        low = apply_derivatives(apply_algebra_lowering(e))
    except RecursionError:
        raise
    except Exception as ex:
        raise Violation(f"expansion raised {type(ex).__name__}: {str(ex)[:300]}", {"kind": "raised:" + exc_bucket(ex)})
    check_acyclic(low, "output")
    if not same_type(e, low):
        raise Violation(f"shape/free indices changed: {e.ufl_shape},{e.ufl_free_indices} -> {low.ufl_shape},{low.ufl_free_indices}",
                        {"kind": "type-changed"})
    structural(low)
    order = max(derivative_depth(e), derivative_depth(low))
    if order > 4:
        raise Discard("derivative order > 4")
    nonzero = False
    for rep in range(2):
        env = make_env(case, rep)
        I = Interp(env, order=order)
        G = Guard(I)
        a = G.value(e)
        bv = eval_output(G, low)
        if not close(a, bv, rtol=1e-7, atol=1e-9):
            raise Violation(f"value mismatch: jets {np.ravel(a)[:4]} vs expanded {np.ravel(bv)[:4]} (rel err {rel_err(a, bv):.3g})",
                            {"kind": "value", "rel_err": rel_err(a, bv), "focus": case.get("focus")})
        nonzero |= bool(np.any(np.abs(a) > 1e-12))
    ops = ops_in(case["expr"])
    nontrivial = nonzero and bool(ops & NONLINEAR)
    labels = ["focus:" + str(case.get("focus"))] + (["manifold"] if on_manifold(case) else [])
    return {"nontrivial": nontrivial, "labels": labels}

"""C25 Sobolev space comparisons form a consistent partial order -- exhaustive.

Universe: the 12 predefined spaces + DirectionalSobolevSpace(o) for o in {0,1,2,3,inf}^{1..3} (167 spaces).
All ordered pairs and all triples are enumerated; directional spaces of different length live in different spatial
dimensions: for such pairs every comparison must be False (!= True), and no triples are formed across lengths.

Reference subspace relation (own table, not read from ufl):
  named/named   : reflexive-transitive closure of the hierarchy L2 > HDiv,HCurl > H1 > H1Div,H1Curl > H2 > H3 > HInf,
                  L2 > HEin, HDivDiv, HCurlDiv
  dir/dir       : component-wise order of the smoothness orders
  dir(o)/named b: H^{min o} is a subspace of b     (H^k = L2,H1,H2,H3,HInf)
  named a/dir(o): order(a) >= max o                 (a is contained in H^{order(a)} and in nothing smoother)
  equality      : same name / same orders / dir(k,..,k) == H^k
A comparison that raises NotImplementedError is "not defined" and skipped (counted).
"""

import itertools
from math import inf

from vf.common import Discard, Violation

LEVEL = "exploration"
EXHAUSTIVE = True
RULE = (
    "exhaustive enumeration: one case per space a (all b, all (b,c) for the pair and triple laws) plus one membership "
    "case per space; a case is non-trivial when at least one compared pair is related by the reference order; "
    "distinct = distinct first element"
)
ASSUMPTIONS = [
    "reference subspace relation is the harness' own table (see module docstring)",
    "directional spaces of different length are unrelated (all comparisons False); no transitivity claim across lengths",
]
BUDGET = {"quick": {"examples": 0, "seconds": 600}, "thorough": {"examples": 0, "seconds": 1200}}
CASE_TIMEOUT = {"quick": 300, "thorough": 600}

NAMED_PARENTS = {
    "L2": [],
    "HDiv": ["L2"],
    "HCurl": ["L2"],
    "H1": ["HDiv", "HCurl", "L2"],
    "H1Div": ["H1"],
    "H1Curl": ["H1"],
    "H2": ["H1Curl", "H1Div", "H1"],
    "H3": ["H2"],
    "HInf": ["H3"],
    "HEin": ["L2"],
    "HDivDiv": ["L2"],
    "HCurlDiv": ["L2"],
}
ORDER = {"L2": 0, "H1": 1, "H2": 2, "H3": 3, "HInf": inf, "HDiv": 0, "HCurl": 0, "H1Div": 1, "H1Curl": 1,
         "HEin": 0, "HDivDiv": 0, "HCurlDiv": 0}
ISO = {0: "L2", 1: "H1", 2: "H2", 3: "H3", inf: "HInf"}
ORDS = [0, 1, 2, 3, inf]


def _closure():
    anc = {}

    def up(n):
        if n not in anc:
            s = set()
            for p in NAMED_PARENTS[n]:
                s.add(p)
                s |= up(p)
            anc[n] = s
        return anc[n]

    for n in NAMED_PARENTS:
        up(n)
    return anc


ANC = _closure()


def universe():
    u = [("N", n) for n in NAMED_PARENTS]
    for ln in (1, 2, 3):
        for o in itertools.product(ORDS, repeat=ln):
            u.append(("D", tuple(o)))
    return u


def comparable(a, b):
    return not (a[0] == "D" and b[0] == "D" and len(a[1]) != len(b[1]))


def ref_eq(a, b):
    if a[0] == b[0]:
        return a[1] == b[1]
    d, n = (a, b) if a[0] == "D" else (b, a)
    return all(o == d[1][0] for o in d[1]) and ISO.get(d[1][0]) == n[1]


def ref_sub(a, b):
    if a[0] == "N" and b[0] == "N":
        return a[1] == b[1] or b[1] in ANC[a[1]]
    if a[0] == "D" and b[0] == "D":
        return all(x >= y for x, y in zip(a[1], b[1]))
    if a[0] == "D":
        k = ISO[min(a[1])]
        return k == b[1] or b[1] in ANC[k]
    return ORDER[a[1]] >= max(b[1])


def ref_lt(a, b):
    return ref_sub(a, b) and not ref_eq(a, b)


def build(s):
    import ufl.sobolevspace as S

    if s[0] == "N":
        return getattr(S, s[1])
    return S.DirectionalSobolevSpace(tuple(s[1]))


def tup(s):
    return (s[0], tuple(inf if x == "inf" or x == inf else x for x in s[1]) if s[0] == "D" else s[1])


def enc(s):
    return [s[0], [("inf" if x == inf else x) for x in s[1]] if s[0] == "D" else s[1]]


def enumerate_cases(tier):
    u = universe()
    return [{"kind": "order", "a": enc(a)} for a in u] + [{"kind": "member", "a": enc(a)} for a in u if a[0] == "N"]


class _Elem:
    def __init__(self, sp):
        self.sobolev_space = sp


_cache = {}


def tables():
    """Evaluate ufl's comparisons once per process: op tables over the universe."""
    if "t" in _cache:
        return _cache["t"]
    u = universe()
    objs = [build(s) for s in u]
    n = len(u)
    ops = {"lt": lambda x, y: x < y, "gt": lambda x, y: x > y, "le": lambda x, y: x <= y, "ge": lambda x, y: x >= y,
           "eq": lambda x, y: x == y, "ne": lambda x, y: x != y}
    T = {k: [[None] * n for _ in range(n)] for k in ops}
    for i in range(n):
        for j in range(n):
            for k, f in ops.items():
                try:
                    r = f(objs[i], objs[j])
                except NotImplementedError:
                    r = "undefined"
                T[k][i][j] = r
    _cache["t"] = (u, objs, T)
    return _cache["t"]


def _b(v):
    """Comparison results must be real booleans."""
    return isinstance(v, bool)


def check_case(case):
    u, objs, T = tables()
    a = tup(case["a"])
    i = u.index(a)
    n = len(u)
    related = 0
    if case["kind"] == "member":
        el = _Elem(objs[i])
        for j in range(n):
            try:
                got = el in objs[j]
            except NotImplementedError:
                continue
            exp = ref_sub(a, u[j])
            related += exp
            if bool(got) != exp:
                raise Violation(f"membership: element of {a} in {u[j]} is {got}, reference {exp}",
                                {"kind": "membership", "a": enc(a), "b": enc(u[j])})
        return {"nontrivial": related > 0, "labels": ["member"]}
    und = 0
    for j in range(n):
        b = u[j]
        if not comparable(a, b):
            # directional spaces over a different number of directions are unrelated: no comparison may hold (triples
            # through named spaces, which have no dimension, are not formed across lengths)
            vals = {k: T[k][i][j] for k in T}
            if any(isinstance(v, str) for v in vals.values()):
                continue
            for k in ("lt", "gt", "le", "ge", "eq"):
                if vals[k] is not False:
                    raise Violation(f"unrelated spaces: {a} {k} {b} returned {vals[k]!r}", {"kind": "cross-length-" + k, "a": enc(a), "b": enc(b)})
            if vals["ne"] is not True:
                raise Violation(f"unrelated spaces: {a} != {b} returned {vals['ne']!r}", {"kind": "cross-length-ne", "a": enc(a), "b": enc(b)})
            continue
        vals = {k: T[k][i][j] for k in T}
        if any(v == "undefined" for v in vals.values() if isinstance(v, str)):
            und += 1
            continue
        for k, v in vals.items():
            if not _b(v):
                raise Violation(f"non-boolean: {a} {k} {b} returned {v!r}", {"kind": "nonbool", "a": enc(a), "b": enc(b)})
        exp = ref_lt(a, b)
        related += exp
        d = {"a": enc(a), "b": enc(b)}
        if vals["lt"] != exp:
            raise Violation(f"lt: {a} < {b} is {vals['lt']}, proper-subspace reference {exp}", dict(d, kind="lt-vs-reference"))
        if vals["eq"] != ref_eq(a, b):
            raise Violation(f"eq: {a} == {b} is {vals['eq']}, reference {ref_eq(a, b)}", dict(d, kind="eq-vs-reference"))
        if vals["ne"] != (not vals["eq"]):
            raise Violation(f"ne: {a} != {b} inconsistent with ==", dict(d, kind="ne"))
        rev = T["lt"][j][i]
        if rev != "undefined" and vals["gt"] != rev:
            raise Violation(f"gt: ({a} > {b}) = {vals['gt']} but ({b} < {a}) = {rev}", dict(d, kind="gt-vs-reversed-lt"))
        if vals["le"] != (vals["lt"] or vals["eq"]):
            raise Violation(f"le: ({a} <= {b}) = {vals['le']} but lt={vals['lt']} eq={vals['eq']}", dict(d, kind="le"))
        revle = T["le"][j][i]
        if revle != "undefined" and vals["ge"] != revle:
            raise Violation(f"ge: ({a} >= {b}) = {vals['ge']} but ({b} <= {a}) = {revle}", dict(d, kind="ge"))
        if i == j and vals["lt"]:
            raise Violation(f"irreflexive: {a} < {a}", dict(d, kind="irreflexive"))
        if vals["lt"] and rev is True:
            raise Violation(f"asymmetry: {a} < {b} and {b} < {a}", dict(d, kind="asymmetric"))
    # transitivity on all triples (a, b, c)
    lt = T["lt"]
    row = lt[i]
    for j in range(n):
        if row[j] is not True:
            continue
        rj = lt[j]
        for k in range(n):
            if rj[k] is True and row[k] is False and comparable(a, u[k]):
                raise Violation(f"transitivity: {a} < {u[j]} < {u[k]} but not {a} < {u[k]}",
                                {"kind": "transitive", "a": enc(a), "b": enc(u[j]), "c": enc(u[k])})
    return {"nontrivial": related > 0, "labels": ["order"] + (["has_undefined"] if und else [])}

"""C21 replace substitutes exactly the mapped subexpressions.

Oracle: value of replace(e, m) on a random cell == value of e evaluated in an environment in which every mapped
terminal (and, through the jets, every derivative of it) takes the value of its image -- images themselves evaluated
without substitution, because replace is simultaneous.  Shape-changing mappings must raise; mappings that hit nothing
must return an expression equal to the input.
"""

import numpy as np
from hypothesis import strategies as st

from vf.common import Discard, Violation
from vf.gen import Gen, Profile, ops_in, worlds
from vf.interp import Interp, close, derivative_depth
from vf.props.valuecommon import warmup  # noqa: F401
from vf.props.valuecommon import (Guard, build_case, check_acyclic, eval_output, exc_bucket, make_env, make_two_sided,
                                  rel_err, same_type)

LEVEL = "exploration"
RULE = (
    "Hypothesis recipes from the full grammar (tensor algebra, index notation, spatial derivatives to order 2, "
    "conditionals, math functions, variables; a two-sided stratum with restrictions) and mappings of 1-3 of their "
    "coefficients / constants / arguments / the spatial coordinate to another terminal or to a generated expression of "
    "the same shape (images may mention mapped terminals, incl. swaps); also applied to forms; plus shape-changing "
    "mappings (must raise) and mappings of terminals that do not occur (result must equal the input); in two thirds of the "
    "cell cases the recipe is built a second time with one mapped coefficient exchanged for an ExternalOperator / "
    "Interpolate N in its space and the key for N (image as drawn, or zero): N must not survive and the value must be "
    "that of e with the coefficient substituted. non-trivial = a "
    "mapped terminal occurs in e and the substituted value differs from the unsubstituted one; distinct = distinct "
    "(recipe, mapping)."
)
ASSUMPTIONS = ["reference interpreter; the image of a terminal under a derivative is differentiated by jets"]
BUDGET = {"quick": {"examples": 4000, "seconds": 70}, "thorough": {"examples": 120000, "seconds": 1500}}
LABEL_FLOORS = {"quick": {"hit": 1200, "shape-change": 100, "untouched": 100, "under-derivative": 200, "bfo-checked": 300}}

OPS = {"arith", "math", "cond", "index", "tensor", "compound", "deriv", "pow", "abs", "var", "sign", "math2"}
CELL = Profile(ops=OPS, leaves={"coef", "const", "lit", "x", "geo", "zero", "eye", "arg"}, max_rank=2, elements="all",
               manifolds=True, args=((0, "any"),))
INTERIOR = Profile(ops=OPS | {"restr"}, leaves={"coef", "const", "lit", "x", "zero", "eye", "n"}, max_rank=2,
                   elements="all", interior=True, facet=True, manifolds=False)
DERIV = {"grad", "divop", "curl", "nabla_grad", "nabla_div", "dx", "Dn"}


def names_in(r, acc):
    if isinstance(r, list):
        if len(r) == 2 and r[0] == "fld":
            acc.add(r[1])
        elif r and r[0] == "x" and len(r) == 1:
            acc.add("x")
        for x in r:
            names_in(x, acc)
    return acc


def under_derivative(r, name, inside=False):
    if isinstance(r, list):
        if inside and ((len(r) == 2 and r[0] == "fld" and r[1] == name) or (r == ["x"] and name == "x")):
            return True
        ins = inside or (bool(r) and isinstance(r[0], str) and r[0] in DERIV)
        return any(under_derivative(x, name, ins) for x in r)
    return False


@st.composite
def cases(draw, tier):
    interior = draw(st.integers(0, 5)) == 0
    prof = INTERIOR if interior else CELL
    world = draw(worlds(prof))
    G = Gen(draw, world, prof)
    g = world["gdim"]
    sh = draw(st.sampled_from([(), (), (g,), (g, g)]))
    e = G.expr(sh, (), draw(st.integers(1, 3)))
    if interior:
        e = ["restr", e, draw(st.sampled_from(["+", "-"]))] if draw(st.booleans()) else e
    used = set()
    names_in(e, used)
    for v in G.vars:
        names_in(v, used)
    kind = draw(st.sampled_from(["hit", "hit", "hit", "hit", "shape", "miss"]))
    shapes = {n: tuple(f["shape"]) for n, f in world["fields"].items()}
    shapes["x"] = (g,)
    mapping = []
    if kind == "miss":
        cands = [n for n in shapes if n not in used and n != "x"]
    else:
        cands = sorted(used)
    if not cands:
        cands = [n for n in shapes if n != "x"]
    keys = draw(st.lists(st.sampled_from(cands), min_size=1, max_size=3, unique=True))
    for k in keys:
        ksh = shapes[k]
        ik = draw(st.sampled_from(["terminal", "expr", "expr"]))
        if ik == "terminal":
            same = [n for n in shapes if shapes[n] == ksh and n != k and n != "x"]
            img = ["fld", draw(st.sampled_from(same))] if same else G.expr(ksh, (), 1)
        else:
            img = G.expr(ksh, (), draw(st.integers(1, 2)))
        if under_derivative(e, k) or any(under_derivative(v, k) for v in G.vars):
            img = G.with_field(img, ksh, ())
        mapping.append([k, img])
    if kind == "shape":
        k = mapping[0][0]
        ksh = shapes[k]
        wrong = draw(st.sampled_from([s for s in [(), (g,), (g, g), (g + 1,)] if s != ksh]))
        mapping[0][1] = G.expr(wrong, (), 1)
    return {"world": world, "expr": e, "vars": G.vars, "mapping": mapping, "kind": kind, "interior": interior,
            "as_form": draw(st.integers(0, 4)) == 0 and sh == () and not interior, "env_seed": draw(st.integers(0, 10**6)),
            "bfo": draw(st.sampled_from(["", "extop", "interp"])),
            "bfo_zero": draw(st.integers(0, 2)) == 0}


def strategy(tier):
    return cases(tier)


def check_case(case):
    import ufl
    from ufl.algorithms.replace import replace

    b, e = build_case(case)
    check_acyclic(e, "input")
    mapping = {}
    try:
        for k, img in case["mapping"]:
            key = b.x if k == "x" else b.fields[k]
            mapping[key] = ufl.as_ufl(b.build(img))
    except RecursionError:
        raise
    except Exception as ex:
        raise Discard("build:" + type(ex).__name__)
    shape_change = any(tuple(k.ufl_shape) != tuple(v.ufl_shape) for k, v in mapping.items())
    target = e
    if case.get("as_form"):
        target = e * ufl.dx(b.mesh)
        if not target.integrals():
            raise Discard("empty form")
    try:
        out = replace(target, mapping)
        raised = None
    except RecursionError:
        raise
    except Exception as ex:
        raised = ex
    labels = ["kind:" + case["kind"]] + (["form"] if case.get("as_form") else []) + (["interior"] if case["interior"] else [])
    if shape_change:
        if raised is None:
            raise Violation("shape-changing mapping accepted", {"kind": "shape-change-accepted"})
        return {"nontrivial": True, "labels": labels + ["shape-change"]}
    if raised is not None:
        raise Violation(f"replace raised {type(raised).__name__}: {str(raised)[:300]}", {"kind": "raised:" + exc_bucket(raised)})
    if case.get("as_form"):
        itgs = out.integrals()
        out = itgs[0].integrand() if itgs else ufl.classes.Zero()
    from ufl.corealg.traversal import traverse_unique_terminals

    present = {repr(t) for t in traverse_unique_terminals(e)}
    hit = any(repr(k) in present for k in mapping)
    if not hit:
        if not (out == e):
            raise Violation("mapping hits nothing but the result differs from the input", {"kind": "untouched-changed"})
        return {"nontrivial": True, "labels": labels + ["untouched"]}
    check_acyclic(out, "output")
    if not same_type(e, out):
        raise Violation(f"shape/free indices changed {e.ufl_shape} -> {out.ufl_shape}", {"kind": "type-changed"})
    order = max(derivative_depth(e) + max([derivative_depth(v) for v in mapping.values()] + [0]), derivative_depth(out))
    if order > 4:
        raise Discard("derivative order > 4")
    differs = False
    for rep in range(2):
        envs = make_two_sided(case, rep) if case["interior"] else make_env(case, rep, facet=True)
        I = Interp(envs, order=order)
        I.subst_simultaneous = True
        if case["interior"]:
            from vf.elements import is_continuous

            I.continuous = lambda f: is_continuous(f.ufl_element()) if hasattr(f, "ufl_element") else True
            I2c = I.continuous
        for k, v in mapping.items():
            I.subst[repr(k)] = v
        exp = Guard(I).value(e)
        I2 = Interp(envs, order=order)
        if case["interior"]:
            I2.continuous = I2c
        got = eval_output(Guard(I2), out)
        if not close(exp, got, rtol=1e-7, atol=1e-9):
            raise Violation(f"value of replace(e, m) {np.ravel(got)[:3]} differs from e with substituted terminals {np.ravel(exp)[:3]} "
                            f"(rel err {rel_err(exp, got):.3g})", {"kind": "value"})
        plain = Guard(I2).value(e)
        differs |= not close(plain, exp, rtol=1e-9, atol=1e-12)
    if any(under_derivative(case["expr"], k) for k, _ in case["mapping"]):
        labels.append("under-derivative")
    if case.get("bfo") and not case.get("as_form") and not case["interior"]:
        labels += check_base_form_operator(case, b, e, mapping)
    return {"nontrivial": differs, "labels": labels + ["hit"]}


def check_base_form_operator(case, b, e, mapping):
    """The same recipe with one mapped coefficient p exchanged for an ExternalOperator / Interpolate N in p's space,
    and the mapping {N: image of p (or zero), others unchanged}: replace documents both as admissible keys.  N is
    opaque, so the result must not mention N and must have the value of e with p := image."""
    import ufl
    from ufl.algorithms.replace import replace
    from ufl.core.external_operator import ExternalOperator
    from ufl.core.interpolate import Interpolate
    from ufl.corealg.traversal import unique_pre_traversal

    name = next((k for k, _ in case["mapping"] if case["world"]["fields"].get(k, {}).get("kind") == "coef"), None)
    if name is None:
        return []
    orig = b.fields[name]
    V = orig.ufl_function_space()
    try:
        if case["bfo"] == "extop":
            N = ExternalOperator(orig, function_space=V)
        else:
            N = Interpolate(orig, ufl.Argument(V.dual(), 0))
        if tuple(N.ufl_shape) != tuple(orig.ufl_shape):
            return ["bfo-shape-differs"]
        b.fields[name] = N
        b.vars = {}
        try:
            eN = ufl.as_ufl(b.build(case["expr"]))
        finally:
            b.fields[name] = orig
            b.vars = {}
    except RecursionError:
        raise
    except Exception:
        return ["bfo-build-failed"]
    if not any(n is N or n == N for n in unique_pre_traversal(eN)):
        return ["bfo-absent"]
    image = mapping[orig]
    if case.get("bfo_zero"):
        image = ufl.zero(*orig.ufl_shape) if orig.ufl_shape else ufl.as_ufl(0)
    mN = {(N if k is orig else k): (image if k is orig else v) for k, v in mapping.items()}
    try:
        outN = replace(eN, mN)
    except RecursionError:
        raise
    except Exception as ex:
        return ["bfo-raised:" + type(ex).__name__]
    if any(isinstance(n, (ExternalOperator, Interpolate)) for n in unique_pre_traversal(outN)):
        raise Violation(f"replace(e, {{N: {str(image)[:40]}}}) with N an {type(N).__name__} leaves N in the result: {str(outN)[:150]}",
                        {"kind": "base-form-operator-survives"})
    order = max(derivative_depth(eN) + max([derivative_depth(v) for v in mN.values()] + [0]), derivative_depth(outN))
    if order > 4:
        return ["bfo-order"]
    envs = make_env(case, 0, facet=True)
    I = Interp(envs, order=order)
    I.subst_simultaneous = True
    for k, v in mapping.items():
        I.subst[repr(k)] = image if k is orig else v
    exp = Guard(I).value(e)
    got = eval_output(Guard(Interp(envs, order=order)), outN)
    if not close(exp, got, rtol=1e-7, atol=1e-9):
        raise Violation(f"value of replace(e, m) with an {type(N).__name__} key {np.ravel(got)[:3]} differs from e with substituted "
                        f"terminals {np.ravel(exp)[:3]} (rel err {rel_err(exp, got):.3g})", {"kind": "base-form-operator-value"})
    return ["bfo-checked", "bfo-checked:" + case["bfo"] + (":zero" if case.get("bfo_zero") else "")]

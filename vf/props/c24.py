"""C24 Point evaluation computes the mathematical value.

e(x, mapping[, component]) is compared with the reference interpreter's value of e at the same physical point, with
every coefficient a polynomial in the physical coordinates: the mapping hands ufl either the coefficient's value
(number / nested tuple, then the field is constant) or a callable f(x[, derivatives]) implemented by the harness
with plain polynomial arithmetic (value and exact partial derivatives); the interpreter evaluates the same polynomial
through its own jets.  An exception on a composition of supported operators is a violation; "Symbolic evaluation of
... not available" for node types without an evaluate method is not.
"""

import itertools
import math

import numpy as np
from hypothesis import strategies as st

from vf.common import Discard, Violation
from vf.gen import Gen, Profile, TDIM, ops_in, worlds
from vf.interp import Interp, close, derivative_depth
from vf.props.valuecommon import warmup  # noqa: F401
from vf.props.valuecommon import Guard, build_case, check_acyclic, exc_bucket, make_env, rel_err

LEVEL = "exploration"
RULE = (
    "Hypothesis recipes (scalar, vector, matrix valued) over arithmetic, powers, math and Bessel functions, "
    "conditionals/min/max/sign/abs, index notation with implicit sums, list and component tensors, compound tensor "
    "algebra, variables, the spatial coordinate and spatial derivatives up to order 2 of coefficients; coefficients are "
    "mapped to numbers / nested tuples or to callables f(x, derivatives); evaluated at a random point for every "
    "component. non-trivial = the expression contains a mapped callable or x and at least one operator; distinct = "
    "distinct (recipe, mapping kinds)."
)
ASSUMPTIONS = [
    "flat affine cells (gdim == tdim) so that spatial derivatives are plain partial derivatives of the callables",
    "ill-conditioned points are discarded; unsupported node types (no evaluate method) are counted, not reported",
]
BUDGET = {"quick": {"examples": 6000, "seconds": 70}, "thorough": {"examples": 200000, "seconds": 1500}}
LABEL_FLOORS = {"quick": {"evaluated": 2500, "derivative": 500, "tensor-valued": 600, "conditional": 300}}

OPS = {"arith", "math", "cond", "index", "tensor", "compound", "deriv", "pow", "abs", "var", "sign", "math2", "bessel",
       "guarded"}
# three index names only: the same Index object is re-used in nested summation / component-tensor scopes
PROFILE = Profile(ops=OPS, leaves={"coef", "const", "lit", "x", "zero", "eye"}, max_rank=2, elements="lagrange",
                  manifolds=False, nindex=3, weights={"comp": 4, "contract": 4, "mul": 4, "cond": 3, "indexfree": 3})
PDEG = 3


@st.composite
def cases(draw, tier):
    world = draw(worlds(PROFILE))
    G = Gen(draw, world, PROFILE)
    g = world["gdim"]
    sh = draw(st.sampled_from([(), (), (g,), (g, g)]))
    e = G.expr(sh, (), draw(st.integers(1, 4)))
    if draw(st.integers(0, 9)) == 0:
        # determinants / inverses / cofactors of 4x4 (and 3x3 in 2D) matrices: the generic n x n expansions
        n4 = draw(st.sampled_from([4, 4, 3]))
        A = ["list", [["list", [G.expr((), (), 1) for _ in range(n4)]] for _ in range(n4)]]
        A = ["add", ["mul", ["lit", 3], ["eye", n4]], ["mul", ["lit", 0.3], A]]
        k4 = draw(st.sampled_from(["det", "inv", "inv"]))
        e = ["det", A] if k4 == "det" else ["index", ["inv", A], [draw(st.integers(0, n4 - 1)), draw(st.integers(0, n4 - 1))]]
        sh = ()
    kinds = {n: draw(st.sampled_from(["callable", "callable", "callable", "value"])) for n, f in world["fields"].items()
             if f["kind"] == "coef"}
    return {"world": world, "expr": e, "vars": G.vars, "mapkind": kinds, "env_seed": draw(st.integers(0, 10**6))}


def strategy(tier):
    return cases(tier)


def exps_of(n, pdeg=PDEG):
    return [m for d in range(pdeg + 1) for m in itertools.product(range(d + 1), repeat=n) if sum(m) == d]


def poly_eval(C, exps, x, derivatives=()):
    """sum_a C[a] x^a differentiated once per entry of `derivatives` (plain loops, no jets)."""
    terms = [(float(c), list(m)) for c, m in zip(C, exps)]
    for d in derivatives:
        new = []
        for c, m in terms:
            if m[d] > 0:
                m2 = list(m)
                m2[d] -= 1
                new.append((c * m[d], m2))
        terms = new
    return sum(c * math.prod(float(xi) ** p for xi, p in zip(x, m)) for c, m in terms)


def nest(arr):
    arr = np.asarray(arr)
    if arr.ndim == 0:
        return float(arr)
    return tuple(nest(a) for a in arr)


def check_case(case):
    import ufl

    b, e = build_case(case)
    check_acyclic(e, "input")
    w = case["world"]
    g = w["gdim"]
    exps = exps_of(g)
    const_fields = {repr(b.fields[n]) for n, k in case["mapkind"].items() if k == "value"}
    order = derivative_depth(e)
    if order > 3:
        raise Discard("derivative order > 3")
    from ufl.corealg.traversal import traverse_unique_terminals

    labels = []
    evaluated = False
    for rep in range(2):
        env = make_env(case, rep)
        env.physical_fields = True
        env.pdeg = PDEG
        env.degree_of = lambda f: [0 if repr(f) in const_fields else PDEG] * int(np.prod(f.ufl_shape, dtype=int))
        I = Interp(env, order=order)
        G = Guard(I)
        expected = G.value(e)
        x = tuple(float(v) for v in env.x)
        mapping = {}
        for name, f in w["fields"].items():
            t = b.fields[name]
            if f["kind"] == "const":
                mapping[t] = nest(env.rand("const:" + repr(t), t.ufl_shape))
                continue
            shape = tuple(t.ufl_shape)
            ncomp = int(np.prod(shape, dtype=int))
            C = np.asarray(env.rand("pp:" + repr(t), (ncomp, len(exps))))
            if case["mapkind"].get(name) == "value":
                mapping[t] = nest(C[:, 0].reshape(shape))
            else:
                def fn(xx, derivatives=(), C=C, shape=shape):
                    vals = np.array([poly_eval(C[c], exps, xx, derivatives) for c in range(C.shape[0])]).reshape(shape)
                    return nest(vals)

                mapping[t] = fn
        got = np.zeros(e.ufl_shape)
        try:
            if e.ufl_shape == ():
                got = np.asarray(e(x, mapping))
            else:
                got = np.zeros(e.ufl_shape, dtype=complex)
                for c in np.ndindex(*e.ufl_shape):
                    got[c] = e(x, mapping, c)
                if not np.any(np.imag(got)):
                    got = np.real(got)
        except RecursionError:
            raise
        except (ValueError, ZeroDivisionError, OverflowError) as ex:
            msg = str(ex)
            if "Symbolic evaluation of" in msg or "not available" in msg:
                return {"nontrivial": False, "labels": ["unsupported:" + msg[:60]]}
            if isinstance(ex, OverflowError):
                raise Discard("illcond:python-overflow")
            # (the interpreter found a finite, well-conditioned value evaluating only what the expression's
            #  semantics require -- e.g. only the selected branch of a conditional -- so a domain error here means
            #  ufl evaluated something the mathematical value does not depend on)
            raise Violation(f"evaluation raised {type(ex).__name__}: {msg[:300]}", {"kind": "raised:" + exc_bucket(ex)})
        except Exception as ex:
            raise Violation(f"evaluation raised {type(ex).__name__}: {str(ex)[:300]}", {"kind": "raised:" + exc_bucket(ex)})
        try:
            got = np.asarray(got, dtype=complex if np.iscomplexobj(got) else float)
        except (TypeError, ValueError):
            raise Violation(f"evaluation returned a non-numeric object {type(got).__name__}: {str(got)[:200]}", {"kind": "non-numeric"})
        if not close(expected, got, rtol=1e-7, atol=1e-9):
            raise Violation(f"point evaluation {np.ravel(got)[:3]} differs from the mathematical value {np.ravel(expected)[:3]} "
                            f"(rel err {rel_err(expected, got):.3g})", {"kind": "value"})
        evaluated = True
    ops = ops_in(case["expr"])
    for v in case.get("vars", ()):
        ops |= ops_in(v)
    labels.append("evaluated")
    if ops & {"grad", "divop", "curl", "nabla_grad", "nabla_div", "dx", "Dn"}:
        labels.append("derivative")
    if e.ufl_shape:
        labels.append("tensor-valued")
    if "cond" in ops:
        labels.append("conditional")
    has_field = any(repr(t) not in const_fields and type(t).__name__ in ("Coefficient", "SpatialCoordinate")
                    for t in traverse_unique_terminals(e))
    return {"nontrivial": evaluated and has_field and len(ops - {"fld", "lit", "x"}) > 0, "labels": labels}

"""C14 The arity check accepts exactly multilinear integrands.

Oracle (numerical ground truth, independent of any arity rule): the integrand is evaluated by the reference
interpreter with the polynomial coefficients of every argument set explicitly; for each argument
  F(.., alpha*u + beta*u', ..) == alpha*F(u) + beta*F(u')        (conj(alpha), conj(beta) for the test function in
                                                                    complex mode)
with random (complex) alpha, beta on two random cells.  Whenever compute_form_data's arity check accepts a form, this
must hold for every integrand and every argument of the form.  Rejections of programs that are multilinear by
construction are only counted (the statement is one-directional); a floor on the number of accepted cases guards
against a checker that refuses everything.
"""

import numpy as np
from hypothesis import strategies as st

from vf.build import Builder
from vf.common import Discard, Violation
from vf.forms import LinGen, build_form
from vf.gen import Gen, Profile, ops_in, worlds
from vf.interp import Interp, close, derivative_depth
from vf.props.valuecommon import warmup  # noqa: F401
from vf.props.valuecommon import Guard, exc_bucket, make_env, rel_err

LEVEL = "exploration"
RULE = (
    "Hypothesis: forms with 1-3 arguments whose integrand is either multilinear by construction (LinGen: linear "
    "operators, derivatives, contractions with argument-free factors from the grammar, conditionals with "
    "argument-free conditions, variables) or such a term broken by one edit (argument-free addend, argument-free "
    "non-zero list-tensor component, square, product with a second occurrence of the argument, nonlinear function, "
    "abs, division by the argument, argument in a condition, branches of different arity, terms with different "
    "argument sets, missing/spurious conjugation in complex mode, also of the third argument or of one term of a sum); real and complex mode. The form goes through "
    "compute_form_data; non-trivial = accepted and numerically verified multilinear with a non-zero value, or a broken "
    "program (numerically non-linear) that was rejected; distinct = distinct (recipe, mode)."
)
ASSUMPTIONS = [
    "arguments are polynomial fields whose coefficient arrays are set by the harness (linear combinations are exact)",
    "only ArityMismatch counts as rejection by the arity check; other exceptions of compute_form_data are discarded",
]
BUDGET = {"quick": {"examples": 3000, "seconds": 70}, "thorough": {"examples": 100000, "seconds": 1500}}
LABEL_FLOORS = {"quick": {"accepted": 800, "rejected": 400, "complex": 300}}
CASE_TIMEOUT = {"quick": 20, "thorough": 60}

OPS_REAL = {"arith", "math", "cond", "index", "tensor", "compound", "deriv", "pow", "abs", "var", "sign"}
REAL = Profile(ops=OPS_REAL, leaves={"coef", "const", "lit", "x", "geo", "eye"}, max_rank=2, elements="all",
               manifolds=True, args=((0, "any"), (1, "any")))
CPLX = Profile(ops={"arith", "math", "index", "tensor", "compound", "deriv", "pow", "var", "complexops"}, cplx=True,
               leaves={"coef", "const", "lit", "x", "eye"}, max_rank=2, elements="all", manifolds=True,
               args=((0, "any"), (1, "any")))
BREAKS = ["affine", "affine", "list_affine", "list_affine", "square", "double", "fn", "abs", "divide", "cond_arg",
          "cond_branches", "mixed_sets", "noconj", "conj_trial", "power"]


def scalar_of(G, L, name):
    """A scalar recipe linear in argument `name`."""
    e, sh = L.lin(name, 1)
    if sh == ():
        return e
    return ["index", e, [G.draw(st.integers(0, n - 1)) for n in sh]]


@st.composite
def cases(draw, tier):
    cplx = draw(st.integers(0, 3)) == 0
    prof = CPLX if cplx else REAL
    world = draw(worlds(prof))
    G = Gen(draw, world, prof)
    L = LinGen(G, cplx=cplx)
    nargs = draw(st.sampled_from([1, 2, 2, 2, 3, 3]))
    if nargs == 3:
        # a third argument (number 2), as in derivative(a(u; v, w), u): linear, never conjugated
        world["fields"]["a2"] = dict(world["fields"][draw(st.sampled_from(["a0", "a1"]))], number=2)
    argnames = ["a0", "a1", "a2"][:nargs]
    for n in ("a0", "a1")[nargs:]:
        world["fields"].pop(n, None)

    def third():
        return L.contract(*L.lin("a2", 1), conj_arg=False)

    def mk_term(depth):
        if nargs <= 2:
            return L.term(argnames, depth)
        return ["mul", L.term(argnames[:2], depth), third()]

    t = mk_term(draw(st.integers(1, 2)))
    kind = draw(st.sampled_from(["linear", "linear", "broken", "broken"]))
    brk = None
    if kind == "broken":
        brk = draw(st.sampled_from(BREAKS + (["conj_third"] * 14 if (cplx and nargs == 3) else []) + (["sum_conj"] * 4 if cplx else [])))
        a = draw(st.sampled_from(argnames))
        s = scalar_of(G, L, a)
        free = G.expr((), (), 1)
        if brk == "affine":
            t = ["add", t, G.positive(free)] if draw(st.booleans()) else ["sub", G.positive(free), t]
        elif brk == "list_affine":
            # inner(as_vector([lin(arg), nonzero argument-free]), T): affine, each list entry looks fine alone
            rest = [b for b in argnames if b != a]
            T = G.expr((2,), (), 1)
            vec = ["list", [s, G.positive(free)] if draw(st.booleans()) else [G.positive(free), s]]
            t = ["inner", T, vec] if not cplx else ["inner", T, vec]
            if a != "a0" and cplx:
                t = ["inner", vec, T]
            for b in rest:
                sb = scalar_of(G, L, b)
                t = ["mul", t, ["conj", sb] if (cplx and b == "a0") else sb]
        elif brk == "square":
            t = ["mul", t, t]
        elif brk == "double":
            t = ["mul", t, ["add", ["lit", 1], s]]
        elif brk == "fn":
            t = ["fn", draw(st.sampled_from(["sin", "exp", "atan", "tanh"])), t]
        elif brk == "abs":
            t = ["abs", t]
        elif brk == "divide":
            t = ["div", t, ["add", ["lit", 3], s]]
        elif brk == "cond_arg":
            if cplx:
                t = ["mul", t, t]
            else:
                t = ["cond", ["lt", s, free], t, ["mul", ["lit", 2], t]]
        elif brk == "cond_branches":
            if cplx:
                t = ["add", t, G.positive(free)]
            else:
                t = ["cond", ["lt", free, G.expr((), (), 1)], t, G.positive(free)]
        elif brk == "mixed_sets":
            other = L.term(argnames[:1], 1) if nargs == 2 else G.positive(free)
            t = ["add", t, other]
        elif brk == "noconj":
            # complex mode: test function not conjugated / real mode: same as 'double'
            t = ["mul", scalar_of(G, L, "a0"), scalar_of(G, L, "a1") if nargs == 2 else G.positive(free)] if cplx else ["mul", t, ["add", ["lit", 1], s]]
        elif brk == "conj_trial":
            if cplx and nargs == 2:
                t = ["mul", ["conj", scalar_of(G, L, "a0")], ["conj", scalar_of(G, L, "a1")]]
            else:
                t = ["pow", t, ["lit", 2]]
        elif brk == "sum_conj":
            # a sum of two terms over the same arguments, one of them with the conjugations exchanged: only real-linear
            bad = ["conj", mk_term(1)] if draw(st.booleans()) else \
                ["mul", scalar_of(G, L, "a0"), (["conj", scalar_of(G, L, "a1")] if nargs >= 2 else G.positive(free))]
            if nargs == 3 and bad[0] == "mul":
                bad = ["mul", bad, third()]
            t = ["add", t, bad] if draw(st.booleans()) else ["sub", bad, t]
        elif brk == "conj_third":
            # antilinear in the argument numbered 2
            t = ["mul", L.term(argnames[:2], 1), ["conj", third()]]
            if draw(st.booleans()):
                t = ["conj", ["mul", ["conj", L.term(argnames[:2], 1)], third()]]
        elif brk == "power":
            t = ["pow", t, ["lit", draw(st.sampled_from([2, 3, 0.5]))]] if not cplx else ["pow", t, ["lit", 2]]
    if nargs == 3 and brk in ("list_affine", "noconj", "conj_trial"):
        t = ["mul", t, third()]
    # further (well-formed) integrals on the same or other subdomains / with other metadata: the check has to look at
    # every integrand of the form, wherever grouping puts it
    from vf.forms import draw_md

    integrals = [{"itype": "dx", "sid": draw(st.sampled_from([None, None, 1])), "md": draw_md(draw), "expr": t}]
    for _ in range(draw(st.sampled_from([0, 0, 1, 2]))):
        integrals.insert(draw(st.integers(0, len(integrals))),
                         {"itype": "dx", "sid": draw(st.sampled_from([None, None, 1])), "md": draw_md(draw),
                          "expr": mk_term(1)})
    return {"world": world, "vars": G.vars, "integrals": integrals,
            "cplx": cplx, "kind": kind, "break": brk, "env_seed": draw(st.integers(0, 10**6))}


def strategy(tier):
    return cases(tier)


def arg_coeff_shape(I, f):
    exps, _ = I._monomials(None, False)
    ncomp = int(np.prod(f.ufl_element().reference_value_shape, dtype=int))
    return (ncomp, len(exps))


def linearity_defect(case, b, F, args, cplx, order):
    """max relative defect of F(alpha u + beta u') - (alpha F(u) + beta F(u')) over arguments and repetitions;
    also returns whether some F value was non-zero."""
    worst = 0.0
    nonzero = False
    for rep in range(2):
        rng = np.random.default_rng([int(case["env_seed"]), rep, 14])
        for a in args:
            alpha, beta = (rng.uniform(0.5, 2, 2) * rng.choice([-1, 1], 2))
            if cplx:
                alpha = alpha + 1j * rng.uniform(0.5, 1.5)
                beta = beta - 1j * rng.uniform(0.5, 1.5)
            vals = []
            CA = CB = None
            for which in range(3):
                env = make_env(case, rep, cplx=cplx)
                I = Interp(env, order=order)
                shp = arg_coeff_shape(I, a)
                if CA is None:
                    CA = rng.uniform(-1, 1, shp) + (1j * rng.uniform(-1, 1, shp) if cplx else 0)
                    CB = rng.uniform(-1, 1, shp) + (1j * rng.uniform(-1, 1, shp) if cplx else 0)
                C = [CA, CB, alpha * CA + beta * CB][which]
                if a.ufl_element().embedded_superdegree == 0:
                    exps, _ = I._monomials(None, False)
                    C = C * np.array([1.0 if sum(m) == 0 else 0.0 for m in exps])
                env.fixed["rp:" + repr(a)] = C
                vals.append(Guard(I).value(F))
            ca, cb = (np.conj(alpha), np.conj(beta)) if (cplx and a.number() == 0) else (alpha, beta)
            exp = ca * vals[0] + cb * vals[1]
            worst = max(worst, rel_err(exp, vals[2]))
            nonzero |= bool(np.any(np.abs(vals[0]) > 1e-12))
    return worst, nonzero


def check_case(case):
    import ufl
    from ufl.algorithms import compute_form_data
    from ufl.algorithms.check_arities import ArityMismatch

    b = Builder(case["world"], case.get("vars", ()))
    try:
        form, exprs = build_form(b, case["integrals"])
    except RecursionError:
        raise
    except Exception as ex:
        raise Discard("build:" + type(ex).__name__)
    if form is None or not form.integrals():
        raise Discard("empty form")
    cplx = case["cplx"]
    args = form.arguments()
    if not args:
        raise Discard("no arguments left")
    try:
        compute_form_data(form, complex_mode=cplx)
        accepted = True
    except ArityMismatch:
        accepted = False
    except RecursionError:
        raise
    except BaseException as ex:
        if type(ex).__name__ in ("CaseTimeout", "StopRun", "KeyboardInterrupt"):
            raise
        raise Discard("other:" + exc_bucket(ex))
    defect, nonzero = 0.0, False
    for F in exprs:
        order = derivative_depth(F)
        if order > 3:
            raise Discard("derivative order > 3")
        d1, nz = linearity_defect(case, b, F, args, cplx, order)
        defect = max(defect, d1)
        nonzero |= nz
    linear = defect < 1e-7
    labels = ["complex" if cplx else "real", "accepted" if accepted else "rejected", "kind:" + case["kind"],
              "integrals:%d" % len(exprs), "arguments:%d" % len(args)]
    if case["break"]:
        labels.append("break:" + case["break"])
    if accepted and not linear:
        raise Violation(f"arity check accepted an integrand that is not (anti)linear in its arguments "
                        f"(defect {defect:.3g}; break={case['break']}, complex={cplx})", {"kind": "accepted-nonlinear"})
    if not accepted and case["kind"] == "linear" and linear and nonzero:
        # multilinear by construction, yet rejected.  The statement does not demand completeness (and the checker is
        # right to refuse e.g. u*v + variable(0)*v, whose second term has lost an argument without being a literal
        # zero): counted, and the floor on accepted cases keeps the check from becoming vacuous
        labels.append("linear-rejected")
    return {"nontrivial": (accepted and nonzero) or (not accepted and not linear), "labels": labels}

"""C13 Structural equality, hashing, repr and pickling are consistent.

Pools of expressions and forms with deliberate near-duplicates (the same recipe built twice on the same terminals;
variants with one edited literal / fixed index; terminals that differ in exactly one datum: coefficient count or
function space, constant count or shape, argument number or part, literal type int/float/complex) are put through a
generated sequence of comparisons and container operations.  Checked:

  * == is reflexive, symmetric and transitive over the pool; != is its negation
  * a == b  =>  hash(a) == hash(b), repr(a) == repr(b), equal shape / free indices, equal value under the reference
    interpreter, equal signature (forms and expressions)
  * after every operation (==, !=, membership in set / dict, sorted_expr, hashing, str) the repr, the hash and the own
    structural key of every pool member equal the snapshot taken at creation
  * pickle.loads(pickle.dumps(e)) == e and eval(repr(e)) == e in a namespace of ufl classes + the element zoo
"""

import itertools
import pickle

import numpy as np
from hypothesis import strategies as st

from vf.common import Discard, Violation
from vf.gen import Gen, Profile, worlds
from vf.props.c19 import Keys, SharedBuilder
from vf.props.c29 import edit

LEVEL = "exploration"
RULE = (
    "Hypothesis: pools of 3-6 members (expressions of one type, or forms) = independent recipes, re-built copies, "
    "one-edit variants and terminal twins that differ in one datum (count, shape, function space, its label, number, part, literal "
    "type); 5-25 generated operations (==, !=, in set, dict lookup, sorted_expr, hash, str, pickle round trip, "
    "eval(repr)) between random members with invariants re-checked after each. non-trivial = the pool holds at least "
    "one pair of equal-but-distinct objects and one pair of near-duplicates that must differ; distinct = distinct "
    "(pool, operation sequence)."
)
ASSUMPTIONS = ["own structural key (type names, terminal reprs) as the notion of 'unchanged'",
               "BaseFormOperators are not generated (their repr is documented as not evaluable)"]
BUDGET = {"quick": {"examples": 2500, "seconds": 70}, "thorough": {"examples": 80000, "seconds": 1500}}
LABEL_FLOORS = {"quick": {"equal-pair": 1200, "twin-pair": 800, "forms": 300}}
CASE_TIMEOUT = {"quick": 20, "thorough": 60}

OPS = {"arith", "math", "cond", "index", "tensor", "compound", "deriv", "pow", "abs", "var", "sign", "bessel"}
PROF = Profile(ops=OPS, leaves={"coef", "const", "lit", "x", "geo", "zero", "eye", "arg"}, max_rank=2, elements="all",
               manifolds=True, weights={"var": 2}, nindex=3, args=((0, "any"),))
TWINS = ["fs_label", "lit_precision", "coef_count", "coef_space", "const_count", "const_shape", "arg_number", "arg_part", "lit_type", "index", "var_label",
         "var_label"]


@st.composite
def cases(draw, tier):
    world = draw(worlds(PROF))
    g = world["gdim"]
    G = Gen(draw, world, PROF)
    forms = draw(st.integers(0, 3)) == 0
    sh = () if forms else draw(st.sampled_from([(), (), (g,), (g, g)]))
    pool = []
    n = draw(st.integers(3, 6))
    twin = draw(st.sampled_from(TWINS))
    if twin == "var_label":
        # a variable that the pool members use: its twin carries the same label around a different expression
        v0 = G.new_var(G.expr((), (), 1), ())
    if twin == "arg_part":
        world["fields"]["a0"]["part"] = 0  # (arguments with and without a part are never mixed in one form)
    while len(pool) < n:
        k = draw(st.sampled_from(["new", "copy", "copy", "edit", "twin", "twin"])) if pool else "new"
        if k == "new":
            r = G.expr(sh, (), draw(st.integers(1, 3)))
            if twin == "var_label" and sh == ():
                r = ["mul", v0, r] if draw(st.booleans()) else v0
            if twin == "const_shape":
                # the bare vector constant / a component of it, valid for the original and for the longer twin
                r = ["fld", "c1"] if draw(st.booleans()) else ["mul", ["index", ["fld", "c1"], [draw(st.integers(0, g - 1))]], r]
            pool.append({"r": r, "twin": None})
        elif k == "copy":
            pool.append(dict(draw(st.sampled_from(pool))))
        elif k == "edit":
            src = draw(st.sampled_from(pool))
            pool.append({"r": edit(draw, src["r"]), "twin": src["twin"]})
        else:
            src = draw(st.sampled_from(pool))
            pool.append({"r": src["r"], "twin": twin})
    if forms:
        # integral metadata / subdomain ids as further data that equal forms must share
        mds = [{}, {"quadrature_degree": 2}, {"quadrature_degree": 3}, {"quadrature_degree": 2, "rule": "default"}]
        for m_ in pool:
            m_["md"] = draw(st.sampled_from(mds[:2] if draw(st.booleans()) else mds))
            m_["sid"] = draw(st.sampled_from([None, None, 1]))
    nops = draw(st.integers(5, 25))
    ops = [[draw(st.sampled_from(["eq", "ne", "set", "dict", "sorted", "hash", "str", "pickle", "evalrepr", "eq", "set"])),
            draw(st.integers(0, n - 1)), draw(st.integers(0, n - 1))] for _ in range(nops)]
    return {"world": world, "vars": G.vars, "pool": pool, "forms": forms, "twin": twin, "ops": ops,
            "md": draw(st.sampled_from([{}, {"quadrature_degree": 2}])), "env_seed": draw(st.integers(0, 10**6))}


def strategy(tier):
    return cases(tier)


class TwinBuilder(SharedBuilder):
    """Builds a recipe with one terminal replaced by a twin that differs from the original in exactly one datum."""

    def __init__(self, base, twin):
        self.__dict__.update(base.__dict__)
        self.base = base
        self.twin = twin
        self.vars = {}
        import ufl

        self.fields = dict(base.fields)
        f0, c0 = base.fields["f0"], base.fields["c0"]
        if twin == "coef_count":
            self.fields["f0"] = ufl.Coefficient(f0.ufl_function_space())
        elif twin == "coef_space":
            from vf.elements import make_element

            V2 = ufl.FunctionSpace(base.mesh, make_element(["DG", 3, []], base.cell))
            self.fields["f0"] = ufl.Coefficient(V2, count=f0.count())
        elif twin == "fs_label":
            # the same space with a label (same element, mesh and coefficient count)
            V2 = ufl.FunctionSpace(base.mesh, f0.ufl_element(), label="boundary")
            self.fields["f0"] = ufl.Coefficient(V2, count=f0.count())
        elif twin == "const_count":
            self.fields["c0"] = ufl.Constant(base.mesh)
        elif twin == "const_shape":
            # same count, same domain, another shape (used through a component so that the expression type is kept)
            c1 = base.fields["c1"]
            self.fields["c1"] = ufl.Constant(base.mesh, shape=(c1.ufl_shape[0] + 1,), count=c1.count())
        elif twin == "arg_number" and "a0" in base.fields:
            a = base.fields["a0"]
            self.fields["a0"] = ufl.Argument(a.ufl_function_space(), a.number() + 1, a.part())
        elif twin == "arg_part" and "a0" in base.fields:
            a = base.fields["a0"]
            self.fields["a0"] = ufl.Argument(a.ufl_function_space(), a.number(), 1)
        elif twin == "index":
            from ufl.classes import Index

            self.idx = {n: Index() for n in base.idx}

    def mk_variable(self, e, k):
        if self.twin == "var_label":
            from ufl.classes import Variable

            base_v = self.base.var(k)
            return Variable(2 * e + 1, base_v.ufl_operands[1])
        return super().mk_variable(e, k)

    def build(self, r):
        if self.twin == "lit_type" and r[0] == "lit" and isinstance(r[1], int) and not isinstance(r[1], bool):
            import ufl

            return ufl.as_ufl(float(r[1]))
        if self.twin == "lit_precision" and r[0] == "lit" and isinstance(r[1], float):
            # a literal that agrees with the original to the 3 digits that reprs show in this case
            import ufl

            return ufl.as_ufl(r[1] * (1 + 2e-5))
        return super().build(r)


def eval_ns():
    import ufl
    import ufl.classes
    import ufl.pullback
    import ufl.sobolevspace

    from vf.elements import EVAL_NS

    ns = {k: getattr(ufl.classes, k) for k in dir(ufl.classes) if not k.startswith("_")}
    for mod in (ufl.pullback, ufl.sobolevspace):
        for k in dir(mod):
            if not k.startswith("_"):
                ns.setdefault(k, getattr(mod, k))
    ns.update(EVAL_NS)
    ns["Mesh"] = ufl.Mesh
    ns["FunctionSpace"] = ufl.FunctionSpace
    return ns


def same(a, b):
    return bool(a == b)


def check_case(case):
    """(with the twin 'lit_precision' float literals are printed with 3 digits: ufl.constantvalue.precision)"""
    import ufl.constantvalue as cv

    old = cv.precision
    try:
        if case["twin"] == "lit_precision":
            cv.precision = 3
        return _check_case(case)
    finally:
        cv.precision = old


def corresponding_terminals_equal(a, b):
    """a == b must imply: the pre-order traversals have the same node types and pairwise equal terminals"""
    from ufl.corealg.traversal import pre_traversal

    ta, tb = list(pre_traversal(a)), list(pre_traversal(b))
    if len(ta) != len(tb):
        return False
    for x, y in zip(ta, tb):
        if type(x) is not type(y):
            return False
        if x._ufl_is_terminal_ and not (x == y):
            return False
    return True


def _check_case(case):
    import ufl
    from ufl.algorithms import compute_form_data
    from ufl.algorithms.signature import compute_expression_signature
    from ufl.sorting import sorted_expr

    base = SharedBuilder(case["world"], case.get("vars", ()), ())
    members = []
    twin_of = []
    for m in case["pool"]:
        b = TwinBuilder(base, m["twin"]) if m["twin"] else SharedBuilder.__new__(SharedBuilder)
        if not m["twin"]:
            b.__dict__.update(base.__dict__)  # (shares the variables: copies of a recipe use the same labels)
        try:
            e = ufl.as_ufl(b.build(m["r"]))
            if case["forms"]:
                if e.ufl_shape or e.ufl_free_indices:
                    continue
                e = e * ufl.Measure("dx", domain=base.mesh, metadata=(m.get("md") or None),
                                    subdomain_id=("everywhere" if m.get("sid") is None else m["sid"]))
                if not e.integrals():
                    continue
        except RecursionError:
            raise
        except Exception:
            continue
        members.append(e)
        twin_of.append(m["twin"])
    if len(members) < 3:
        raise Discard("pool too small after construction")
    n = len(members)
    K = Keys()

    def skey(e):
        if case["forms"]:
            return tuple((itg.integral_type(), str(itg.subdomain_id()), repr(sorted(itg.metadata().items())), K.key(itg.integrand()))
                         for itg in e.integrals())
        return K.key(e)

    snap = [(repr(e), hash(e), skey(e), str(e)) for e in members]

    def invariants(after):
        for k, e in enumerate(members):
            now = (repr(e), hash(e), skey(e), str(e))
            if now != snap[k]:
                what = ["repr", "hash", "structure", "str"][[a != b for a, b in zip(now, snap[k])].index(True)]
                raise Violation(f"{what} of a pool member changed after {after}", {"kind": "changed-" + what})

    # equivalence relation
    E = [[same(members[i], members[j]) for j in range(n)] for i in range(n)]
    for i in range(n):
        if not E[i][i]:
            raise Violation("a == a is False", {"kind": "reflexive"})
        for j in range(n):
            if E[i][j] != E[j][i]:
                raise Violation(f"== is not symmetric: {str(members[i])[:80]} vs {str(members[j])[:80]}", {"kind": "symmetric"})
            if not case["forms"] and bool(members[i] != members[j]) == E[i][j]:
                raise Violation("a != b is not the negation of a == b", {"kind": "ne"})
    for i, j, k in itertools.product(range(n), repeat=3):
        if E[i][j] and E[j][k] and not E[i][k]:
            raise Violation("== is not transitive", {"kind": "transitive"})
    invariants("pairwise comparison")
    equal_pairs = twin_pairs = 0
    for i in range(n):
        for j in range(i + 1, n):
            a, b = members[i], members[j]
            if E[i][j]:
                if a is not b:
                    equal_pairs += 1
                if hash(a) != hash(b):
                    raise Violation(f"a == b but hash differs: {repr(a)[:100]} vs {repr(b)[:100]}", {"kind": "eq-hash"})
                if repr(a) != repr(b):
                    raise Violation(f"a == b but repr differs: {repr(a)[:120]} vs {repr(b)[:120]}", {"kind": "eq-repr"})
                if skey(a) != skey(b):
                    raise Violation(f"a == b but the structures differ: {str(a)[:100]} vs {str(b)[:100]}", {"kind": "eq-structure"})
                if not case["forms"] and not corresponding_terminals_equal(a, b):
                    raise Violation(f"a == b but corresponding terminals are not equal: {str(a)[:100]} vs {str(b)[:100]}", {"kind": "eq-terminals"})
                if not case["forms"] and (a.ufl_shape != b.ufl_shape or a.ufl_free_indices != b.ufl_free_indices):
                    raise Violation("a == b but shape / free indices differ", {"kind": "eq-type"})
                if case["forms"]:
                    sa, sb = a.signature(), b.signature()
                elif a.ufl_shape == () and not a.ufl_free_indices:
                    fa, fb = a * ufl.dx(base.mesh), b * ufl.dx(base.mesh)
                    sa, sb = (fa.signature(), fb.signature()) if (fa.integrals() and fb.integrals()) else (0, 0)
                else:
                    sa = sb = 0
                if sa != sb:
                    raise Violation("a == b but the signatures differ", {"kind": "eq-signature"})
            else:
                if skey(a) == skey(b) and case["twin"] != "lit_precision":
                    raise Violation(f"structurally identical (same terminals by repr) but a != b: {str(a)[:100]}", {"kind": "identical-not-equal"})
                if twin_of[i] != twin_of[j]:
                    twin_pairs += 1
    # generated operations, invariants after each
    ns = None
    for op, i, j in case["ops"]:
        i, j = i % n, j % n
        a, b = members[i], members[j]
        if op == "eq":
            if same(a, b) != E[i][j]:
                raise Violation("a == b changed its answer", {"kind": "eq-unstable"})
        elif op == "ne":
            if not case["forms"]:
                _ = a != b
        elif op == "set":
            s = set(members[:j + 1])
            if (a in s) != any(E[i][k] for k in range(j + 1)):
                raise Violation("membership in a set disagrees with ==", {"kind": "set-membership"})
        elif op == "dict":
            d = {m: k for k, m in enumerate(members)}
            if not E[d[a]][i]:
                raise Violation("dict lookup returned an entry that is not equal to the key", {"kind": "dict-lookup"})
        elif op == "sorted":
            if not case["forms"]:
                sorted_expr(list(members))
        elif op == "hash":
            hash(a), hash(b)
        elif op == "str":
            str(a), str(b)
        elif op == "pickle":
            try:
                c = pickle.loads(pickle.dumps(a))
            except RecursionError:
                raise
            except Exception as ex:
                raise Violation(f"pickle round trip raised {type(ex).__name__}: {str(ex)[:200]}", {"kind": "pickle-raised"})
            if not same(c, a) or repr(c) != repr(a):
                raise Violation("pickle.loads(pickle.dumps(e)) != e", {"kind": "pickle-roundtrip"})
        elif op == "evalrepr" and case["twin"] != "lit_precision":  # (a reduced precision makes reprs lossy on purpose)
            ns = ns or eval_ns()
            try:
                c = eval(repr(a), dict(ns))
            except RecursionError:
                raise
            except Exception as ex:
                raise Violation(f"eval(repr(e)) raised {type(ex).__name__}: {str(ex)[:200]}", {"kind": "evalrepr-raised"})
            if not same(c, a):
                raise Violation(f"eval(repr(e)) != e for {str(a)[:100]}", {"kind": "evalrepr-roundtrip"})
        invariants(op)
    labels = (["forms"] if case["forms"] else ["expressions"]) + (["equal-pair"] if equal_pairs else []) + (["twin-pair"] if twin_pairs else [])
    labels.append("twin:" + case["twin"])
    return {"nontrivial": equal_pairs > 0 and twin_pairs > 0, "labels": labels}

"""Helpers shared by the value properties: building cases, environments, guarded evaluation and comparison."""

import math

import numpy as np

from vf.build import Builder
from vf.common import Discard, Violation, khash
from vf.interp import Env, IllConditioned, Interp, Unsupported, close, derivative_depth, is_acyclic, two_sided
from vf.refcell import Geometry, TDIM


def build_case(case, key="expr"):
    """Build the UFL expression of a case; a constructor exception discards the case (bucketed)."""
    b = Builder(case["world"], case.get("vars", ()))
    try:
        e = b.build(case[key])
    except RecursionError:
        raise
    except Exception as ex:
        raise Discard("build:" + type(ex).__name__)
    from ufl.core.expr import Expr

    if not isinstance(e, Expr):  # math functions of literals fold to python numbers
        import ufl

        e = ufl.as_ufl(e)
    return b, e


def make_env(case, rep=0, facet=False, cplx=False, mode="poly", max_cond=50.0):
    w = case["world"]
    rng = np.random.default_rng([int(case.get("env_seed", 0)), rep])
    geo = Geometry.random(rng, w["cell"], w["gdim"], max_cond=max_cond)
    f = int(rng.integers(0, TDIM[w["cell"]] + 1))
    X = geo.random_facet_point(rng, f) if facet else geo.random_cell_point(rng)
    return Env(geo, X, facet=f, weight=float(rng.uniform(0.1, 1.0)), seed=int(case.get("env_seed", 0)) * 7 + rep,
               cplx=cplx, mode=mode)


def make_two_sided(case, rep=0, cplx=False, mode="poly"):
    w = case["world"]
    rng = np.random.default_rng([int(case.get("env_seed", 0)), rep, 77])
    try:
        return two_sided(rng, w["cell"], seed=int(case.get("env_seed", 0)) * 7 + rep, cplx=cplx, mode=mode, gdim=w["gdim"])
    except RuntimeError as ex:
        # (no well-shaped neighbour cell found for this random '+' cell in 200 attempts)
        raise Discard("geometry:" + str(ex)[:30])


class Guard:
    """Value-level ill-conditioning guard around one interpreter."""

    def __init__(self, interp, min_den=1e-3, max_abs=1e6, cond_margin=1e-7):
        self.I = interp
        self.min_den = min_den
        self.max_abs = max_abs
        self.cond_margin = cond_margin

    def value(self, e, side=None, what="value", jet=False):
        I = self.I
        try:
            with np.errstate(all="ignore"):
                v = I.val(e, side)
        except Unsupported as ex:
            raise Discard("unsupported:" + str(ex)[:40])
        except IllConditioned:
            raise Discard("illcond:singular")
        except np.linalg.LinAlgError:
            raise Discard("illcond:linalg")
        if not np.all(np.isfinite(v)):
            raise Discard("illcond:nonfinite")
        if np.max(np.abs(v), initial=0.0) > self.max_abs:
            raise Discard("illcond:huge")
        if I.min_den < self.min_den:
            raise Discard("illcond:small_denominator")
        if getattr(I, "cond_margin", math.inf) < self.cond_margin:
            raise Discard("illcond:conditional_switch")
        if getattr(I, "saw_nan", False):
            raise Discard("illcond:undefined_intermediate")
        if getattr(I, "max_inter", 0.0) > self.max_abs:
            raise Discard("illcond:huge_intermediate")
        if getattr(I, "max_fn_arg", 0.0) > 1e4:
            raise Discard("illcond:large_function_argument")
        if getattr(I, "max_cond", 0.0) > 1e5:
            raise Discard("illcond:matrix_condition")
        return v if jet else v[0]


def eval_output(guard, e, side=None, kind="output", jet=False):
    """Evaluate something *produced by ufl*: a malformed result is a violation, not a harness error."""
    try:
        return guard.value(e, side, jet=jet)
    except Discard:
        raise
    except (AssertionError, ValueError, IndexError, KeyError, TypeError, AttributeError) as ex:
        raise Violation(f"{kind} expression cannot be evaluated ({type(ex).__name__}: {str(ex)[:200]})",
                        {"kind": kind + "-malformed"})


def same_type(a, b):
    return (tuple(a.ufl_shape) == tuple(b.ufl_shape) and tuple(a.ufl_free_indices) == tuple(b.ufl_free_indices)
            and tuple(a.ufl_index_dimensions) == tuple(b.ufl_index_dimensions))


def check_acyclic(e, what):
    if not is_acyclic(e):
        raise Violation(f"{what}: expression DAG contains a cycle", {"kind": "cycle"})


def exc_bucket(ex):
    import traceback

    tb = traceback.extract_tb(ex.__traceback__)
    frame = ""
    for fr in reversed(tb):
        if "/ufl/" in fr.filename:
            frame = fr.filename.split("/ufl/")[-1] + ":" + fr.name
            break
    return f"{type(ex).__name__}@{frame}"


def rel_err(a, b):
    a = np.asarray(a)
    b = np.asarray(b)
    s = max(1.0, float(np.max(np.abs(a), initial=0)), float(np.max(np.abs(b), initial=0)))
    return float(np.max(np.abs(a - b), initial=0) / s)


def warmup():
    """Import sympy/scipy and build the derivative tables outside of any per-case watchdog."""
    from vf import jets as jt

    for name in ("Sqrt", "Exp", "Ln", "Cos", "Sin", "Tan", "Cosh", "Sinh", "Tanh", "Acos", "Asin", "Atan", "Erf"):
        jt.unary_table(name)(0, np.asarray(0.3))
    jt.atan2_table()(0, 0, np.asarray(0.3), np.asarray(0.4))
    jt.bessel_table("J", 1)(1, np.asarray(0.3))

"""C22 Block extraction partitions mixed forms.

Generated linear / bilinear forms whose arguments live on a mixed element (flattened vector of 2-3 sub-elements:
scalars, vectors, Piola-mapped) or on a MixedFunctionSpace (arguments with parts).  With the arguments evaluated as
polynomial fields whose coefficient arrays the harness controls:

   block (i, j)  ==  F with every test sub-function except the i-th and every trial sub-function except the j-th set
                     to zero        (hence it depends only on those two sub-functions)
   sum of all blocks == F

per (integral type, subdomain, metadata); for mixed elements both with replace_argument=True (the block's new
sub-space arguments are tied to the corresponding rows of the parent argument's coefficient array) and False.
Single (i, j), row i and full extraction are compared with each other.
"""

import numpy as np
from hypothesis import strategies as st

from vf.build import Builder
from vf.common import Discard, Violation
from vf.forms import LinGen, build_form, draw_md, restrict_term
from vf.gen import Gen, Profile, TDIM, worlds
from vf.interp import Interp, close, derivative_depth
from vf.props.c16 import combine, form_values, same_values
from vf.props.valuecommon import warmup  # noqa: F401
from vf.props.valuecommon import Guard, exc_bucket, make_env, make_two_sided, rel_err

LEVEL = "exploration"
RULE = (
    "Hypothesis: forms of arity 1 or 2 (1-2 integrals over dx/ds/dS -- on dS the arguments sit under restrictions, "
    "jumps and averages --, subdomain ids, metadata) whose test/trial functions are on a "
    "mixed element of 2-3 sub-elements drawn from scalar/vector Lagrange, DG, RT-like and N1curl-like (also on immersed "
    "cells, where reference and physical sizes differ) or on a MixedFunctionSpace with 2-3 parts; integrands are "
    "multilinear by construction (derivatives, components, contractions with generated factors). extract_blocks is "
    "called for the full block structure, a row and a single (i, j), with replace_argument True/False. non-trivial = at "
    "least two blocks are non-zero or a block that must vanish was checked against a non-zero form; distinct = "
    "distinct (form, options)."
)
ASSUMPTIONS = ["arguments are polynomial fields with harness-controlled coefficients; sub-space arguments created by "
               "extract_blocks are tied to the rows of the parent argument that belong to their sub-element"]
BUDGET = {"quick": {"examples": 1600, "seconds": 75}, "thorough": {"examples": 50000, "seconds": 1500}}
LABEL_FLOORS = {"quick": {"interior-facet:arity2": 80, "kind:mixed": 400, "kind:parts": 200, "arity:2": 400, "arity:1": 150, "replace:False": 100}}
CASE_TIMEOUT = {"quick": 30, "thorough": 90}

OPS = {"arith", "math", "index", "tensor", "compound", "deriv", "pow", "var"}
PROF = Profile(ops=OPS, leaves={"coef", "const", "lit", "x", "eye"}, max_rank=2, elements="all", manifolds=True)
SUBS = [["P", 1, []], ["P", 2, []], ["DG", 1, []], ["P", 1, "g"], ["P", 2, "g"], ["RT", 1], ["N1", 1], ["DGp", 1],
        ["P", 1, "gg"], ["Regge", 1], ["HHJ", 1]]


def phys_size(spec, g):
    if spec[0] in ("P", "DG"):
        return int(np.prod(spec[2], dtype=int))
    if spec[0] in ("RT", "N1"):
        return g
    if spec[0] in ("Regge", "HHJ", "GLS"):
        return g * g
    return 1


@st.composite
def cases(draw, tier):
    world = draw(worlds(PROF))
    g = world["gdim"]
    kind = draw(st.sampled_from(["mixed", "mixed", "parts"]))
    arity = draw(st.sampled_from([1, 2, 2]))
    G = None
    if kind == "mixed":
        nsub = draw(st.integers(2, 3))
        subs = []
        for _ in range(nsub):
            sp = list(draw(st.sampled_from(SUBS)))
            if len(sp) > 2 and sp[2] == "g":
                sp[2] = [g]
            if len(sp) > 2 and sp[2] == "gg":
                sp[2] = [g, g]
            subs.append(sp)
        if draw(st.integers(0, 3)) == 0:
            # focus: a rank-2 sub-element ahead of the others (flattened offsets of the later blocks, seeded C22-m7)
            subs[0] = [["P", 1, [g, g]], ["Regge", 1], ["HHJ", 1]][draw(st.integers(0, 2))]
        n = sum(phys_size(s, g) for s in subs)
        world["fields"]["a0"] = dict(kind="arg", elem=["mixed", subs], shape=[n], number=0, part=None)
        names_v, names_u = ["a0"], []
        if arity == 2:
            world["fields"]["a1"] = dict(kind="arg", elem=["mixed", subs], shape=[n], number=1, part=None)
            names_u = ["a1"]
        G = Gen(draw, world, PROF)
        L = LinGen(G, cond=False)
        nterms = draw(st.integers(1, 3))
        terms = [L.term(names_v + names_u, draw(st.integers(1, 2))) for _ in range(nterms)]
        meta = {"subs": subs}
    else:
        nparts = draw(st.integers(2, 3))
        shape = draw(st.sampled_from([[], [], [g]]))
        specs = [draw(st.sampled_from([["P", 1, shape], ["P", 2, shape], ["DG", 1, shape]])) for _ in range(nparts)]
        for p_, sp in enumerate(specs):
            world["fields"][f"v{p_}"] = dict(kind="arg", elem=sp, shape=list(shape), number=0, part=p_)
            if arity == 2:
                world["fields"][f"u{p_}"] = dict(kind="arg", elem=sp, shape=list(shape), number=1, part=p_)
        G = Gen(draw, world, PROF)
        L = LinGen(G, cond=False)
        if arity == 2:
            blocks = draw(st.lists(st.tuples(st.integers(0, nparts - 1), st.integers(0, nparts - 1)), min_size=1, max_size=4, unique=True))
            terms = [L.term([f"v{i}", f"u{j}"], 1) for i, j in blocks]
        else:
            blocks = draw(st.lists(st.integers(0, nparts - 1), min_size=1, max_size=3, unique=True))
            terms = [L.term([f"v{i}"], 1) for i in blocks]
        meta = {"nparts": nparts}
    nint = draw(st.sampled_from([1, 1, 2]))
    integrals = []
    for k in range(nint):
        mine = terms[k::nint]
        if not mine:
            continue
        itype = draw(st.sampled_from(["dx", "dx", "ds", "dS", "dS"]))
        if itype == "dS":
            # interior facets: the terms (arguments included) sit under restrictions, jumps and averages
            mine = [restrict_term(G, t) for t in mine]
            if arity == 2 and draw(st.booleans()):
                # ... or test and trial parts are restricted separately, possibly to different sides
                if kind == "mixed":
                    nv_, nu_ = "a0", "a1"
                else:
                    nv_, nu_ = f"v{draw(st.integers(0, nparts - 1))}", f"u{draw(st.integers(0, nparts - 1))}"
                mine.append(["mul", ["restr", L.term([nv_], 1), draw(st.sampled_from(["+", "-"]))],
                             ["restr", L.term([nu_], 1), draw(st.sampled_from(["+", "-"]))]])
        e = mine[0]
        for t in mine[1:]:
            e = ["add", e, t]
        integrals.append({"itype": itype, "sid": draw(st.sampled_from([None, None, 1])),
                          "md": draw_md(draw), "expr": e})
    return {"world": world, "vars": G.vars, "integrals": integrals, "kind": kind, "arity": arity, "meta": meta,
            "replace_argument": draw(st.booleans()) if kind == "mixed" else True,
            "env_seed": draw(st.integers(0, 10**6))}


def strategy(tier):
    return cases(tier)


def ref_offsets(el):
    offs = [0]
    for se in el.sub_elements:
        offs.append(offs[-1] + se.reference_value_size)
    return offs


def check_case(case):
    import ufl
    from ufl.algorithms import expand_derivatives

    b = Builder(case["world"], case.get("vars", ()))
    try:
        form, exprs = build_form(b, case["integrals"])
    except RecursionError:
        raise
    except Exception as ex:
        raise Discard("build:" + type(ex).__name__)
    if form is None or not form.integrals():
        raise Discard("empty form")
    arity = case["arity"]
    if len({a.number() for a in form.arguments()}) != arity:
        raise Discard("arity lost at construction")
    order = max(derivative_depth(e) for e in exprs)
    if order > 3:
        raise Discard("derivative order > 3")
    kind = case["kind"]
    ra = case["replace_argument"]
    try:
        full = ufl.extract_blocks(form, replace_argument=ra)
    except RecursionError:
        raise
    except Exception as ex:
        raise Violation(f"extract_blocks raised {type(ex).__name__}: {str(ex)[:300]}", {"kind": "raised:" + exc_bucket(ex)})
    if kind == "mixed":
        v = b.fields["a0"]
        u = b.fields.get("a1")
        el = v.ufl_element()
        n = len(el.sub_elements)
        offs = ref_offsets(el)
    else:
        n = case["meta"]["nparts"]
        vs = [b.fields[f"v{p}"] for p in range(n)]
        us = [b.fields.get(f"u{p}") for p in range(n)]
    # normalise the result to a dict {(i, j) or (i,): form or None}
    blocks = {}
    if arity == 2:
        if not (isinstance(full, tuple) and len(full) >= 1 and all(isinstance(r, tuple) for r in full)):
            raise Violation(f"extract_blocks returned {type(full).__name__} for a bilinear form on a mixed space", {"kind": "result-structure"})
        for i, row in enumerate(full):
            for j, f in enumerate(row):
                blocks[(i, j)] = f
    else:
        if not isinstance(full, tuple):
            raise Violation(f"extract_blocks returned {type(full).__name__} for a linear form on a mixed space", {"kind": "result-structure"})
        if kind == "mixed" and full and isinstance(full[0], tuple):
            # for mixed elements the full extraction of a linear form is reported as an n x n table whose entries do
            # not depend on the column: use column 0
            for i, row in enumerate(full):
                blocks[(i,)] = row[0]
        else:
            for i, f in enumerate(full):
                blocks[(i,)] = f
    nonzero_blocks = 0
    for rep in range(2):
        rng = np.random.default_rng([int(case["env_seed"]), rep, 22])

        def factory(fixed):
            # coefficient arrays are stacked (2, rows, monomials): [0] one-sided and '+' side, [1] '-' side
            def make(itype):
                if itype == "interior_facet":
                    envs = make_two_sided(case, rep)
                    for k_, v_ in fixed.items():
                        envs["+"].fixed[k_ + ":+"] = v_[0]
                        envs["-"].fixed[k_ + ":-"] = v_[1]
                    return Interp(envs, order=order)
                env = make_env(case, rep, facet=(itype == "exterior_facet"))
                I = Interp(env, order=order)
                for k_, v_ in fixed.items():
                    env.fixed[k_] = v_[0]
                return I
            return make

        probe = Interp(make_env(case, rep), order=order)
        nmono = len(probe._monomials(None, False)[0])
        if kind == "mixed":
            Cv = rng.uniform(-1, 1, (2, offs[-1], nmono))
            Cu = rng.uniform(-1, 1, (2, offs[-1], nmono))

            def masked(C, i):
                M = np.zeros_like(C)
                M[:, offs[i]:offs[i + 1]] = C[:, offs[i]:offs[i + 1]]
                return M

            base = {"rp:" + repr(v): Cv}
            if u is not None:
                base["rp:" + repr(u)] = Cu
            F = form_values(form, factory(base), None)
            total = {}
            for key, blk in blocks.items():
                i = key[0]
                j = key[1] if arity == 2 else None
                fx = {"rp:" + repr(v): masked(Cv, i)}
                if u is not None:
                    fx["rp:" + repr(u)] = masked(Cu, j)
                exp = form_values(form, factory(fx), None)
                if blk is None:
                    got = {}
                else:
                    fx2 = dict(base)
                    if ra:
                        for a_ in blk.arguments():
                            if a_ == v or (u is not None and a_ == u):
                                continue
                            idx = i if a_.number() == 0 else j
                            src = Cv if a_.number() == 0 else Cu
                            fx2["rp:" + repr(a_)] = src[:, offs[idx]:offs[idx + 1]]
                    got = form_values(blk, factory(fx2), None)
                same_values(exp, got, f"block {key} (replace_argument={ra})")
                total = combine((1, total), (1, got))
                if any(np.any(np.abs(x) > 1e-12) for x in exp.values()):
                    nonzero_blocks += 1
            same_values(F, total, "sum of blocks")
        else:
            Cs = {}
            for a_ in vs + [x for x in us if x is not None]:
                ncomp = int(np.prod(a_.ufl_element().reference_value_shape, dtype=int))
                Cs[a_] = rng.uniform(-1, 1, (2, ncomp, nmono))
            base = {"rp:" + repr(a_): C for a_, C in Cs.items()}
            F = form_values(form, factory(base), None)
            total = {}
            for key, blk in blocks.items():
                keep = {vs[key[0]]} | ({us[key[1]]} if arity == 2 else set())
                fx = {"rp:" + repr(a_): (C if a_ in keep else np.zeros_like(C)) for a_, C in Cs.items()}
                exp = form_values(form, factory(fx), None)
                got = {} if blk is None else form_values(blk, factory(base), None)
                same_values(exp, got, f"block {key} (parts)")
                total = combine((1, total), (1, got))
                if any(np.any(np.abs(x) > 1e-12) for x in exp.values()):
                    nonzero_blocks += 1
            same_values(F, total, "sum of blocks (parts)")
    # single block / row extraction agree with the full extraction
    try:
        for key, blk in list(blocks.items())[:4]:
            if arity == 2:
                one = ufl.extract_blocks(form, key[0], key[1], replace_argument=ra)
            else:
                one = ufl.extract_blocks(form, key[0], replace_argument=ra)
            a_empty = blk is None or blk.empty()
            o_empty = one is None or (hasattr(one, "empty") and one.empty())
            if a_empty != o_empty or (not a_empty and one.signature() != blk.signature()):
                raise Violation(f"extract_blocks(form, {key}) differs from the {key} entry of the full extraction", {"kind": "single-vs-full"})
    except Violation:
        raise
    except RecursionError:
        raise
    except Exception as ex:
        raise Violation(f"extract_blocks(form, i, j) raised {type(ex).__name__}: {str(ex)[:200]}", {"kind": "raised-single:" + exc_bucket(ex)})
    w = case["world"]
    labels = ["kind:" + kind, "arity:%d" % arity, "replace:%s" % ra]
    if any(i["itype"] == "dS" for i in case["integrals"]):
        labels.append("interior-facet:arity%d" % arity)
    if w["gdim"] > TDIM[w["cell"]]:
        labels.append("manifold")
    return {"nontrivial": nonzero_blocks >= 2, "labels": labels}

"""Runner shared by every property check.

  ./check CNN [--tier quick|thorough] [--replay FILE] [--seed N] [--shards K] [--examples N] [--seconds S]

A property module `vf.props.cNN` provides

  RULE            text: how cases are generated / what makes one non-trivial and distinct
  ASSUMPTIONS     list of strings
  BUDGET          {"quick": {"examples": N, "seconds": S}, "thorough": {...}}  (totals over all shards)
  strategy(tier)  Hypothesis strategy producing a JSON-able case            (generated properties)
  enumerate_cases(tier)  list of JSON-able cases, run completely             (exhaustive properties, EXHAUSTIVE=True)
  check_case(case) -> {"nontrivial": bool, "key": str|None, "labels": [str]}
                  raises Violation / Discard
  KNOWN           optional {finding_id: predicate(case) -> bool}: root-cause predicates of *unrepaired* defects
                  listed in known_findings.json; matching cases are diverted (counted, not run)

Exit codes: 0 property held on everything explored; 1 + "VIOLATION property=<id> replay=<path>"; 2 harness error.
"""

import argparse
import collections
import glob
import importlib
import json
import multiprocessing
import os
import signal
import sys
import time
import traceback

from vf.common import CaseTimeout, Discard, StopRun, Violation, jdump, khash, size_of, tojson

ROOT = os.path.dirname(os.path.dirname(os.path.abspath(__file__)))


def load_known():
    path = os.path.join(ROOT, "known_findings.json")
    if not os.path.exists(path):
        return []
    with open(path) as f:
        return json.load(f).get("findings", [])


def _alarm_handler(signum, frame):
    raise CaseTimeout()


class ShardResult:
    def __init__(self):
        self.evaluations = 0
        self.checked = 0
        self.discards = collections.Counter()
        self.labels = collections.Counter()
        self.diverted = collections.Counter()
        self.keys = set()
        self.samples = []
        self.violations = {}  # kind -> {"case", "msg", "detail", "size", "count"}
        self.harness_errors = []
        self.timeouts = 0
        self.stopped_by_budget = False
        self.wall = 0.0

    def as_dict(self):
        d = dict(self.__dict__)
        d["keys"] = list(self.keys)
        d["discards"] = dict(self.discards)
        d["labels"] = dict(self.labels)
        d["diverted"] = dict(self.diverted)
        return d


ACTIVE_KNOWN = set()  # ids of the listed known findings of the property being run (set per process; empty in replays)


def run_one(module, case, res, known_preds, case_timeout, reraise=True):
    """Run check_case on one case with watchdog + bookkeeping.  Returns 'ok'|'discard'|'violation'|..."""
    res.evaluations += 1
    for fid, pred in known_preds.items():
        try:
            hit = pred(case)
        except Exception:
            hit = False
        if hit:
            res.diverted[fid] += 1
            return "diverted"
    old = signal.signal(signal.SIGALRM, _alarm_handler)
    signal.alarm(case_timeout)
    try:
        out = module.check_case(case)
        signal.alarm(0)
    except Discard as d:
        signal.alarm(0)
        res.discards[d.reason] += 1
        return "discard"
    except Violation as v:
        signal.alarm(0)
        if v.detail.get("known") in ACTIVE_KNOWN:
            # a listed known finding, identified by the check itself: counted, and the search goes on
            res.diverted[v.detail["known"]] += 1
            return "diverted"
        kind = str(v.detail.get("kind", v.msg.split(":")[0]))[:80]
        sz = size_of(case)
        cur = res.violations.get(kind)
        if cur is None or sz < cur["size"]:
            res.violations[kind] = {
                "case": case,
                "msg": v.msg[:2000],
                "detail": tojson(v.detail),
                "size": sz,
                "count": (cur["count"] if cur else 0) + 1,
            }
        else:
            cur["count"] += 1
        if reraise:
            raise
        return "violation"
    except CaseTimeout:
        signal.alarm(0)
        res.timeouts += 1
        if getattr(module, "TIMEOUT_IS_VIOLATION", False):
            # only for properties whose cases take milliseconds and where non-termination is the failure mode looked for
            kind = "timeout"
            cur = res.violations.get(kind)
            sz = size_of(case)
            if cur is None or sz < cur["size"]:
                res.violations[kind] = {"case": case, "msg": f"case did not finish within {case_timeout} s (normal: milliseconds)",
                                        "detail": {"kind": kind}, "size": sz, "count": (cur["count"] if cur else 0) + 1}
            else:
                cur["count"] += 1
            return "violation"
        return "timeout"
    except (StopRun, KeyboardInterrupt):
        signal.alarm(0)
        raise
    except BaseException as ex:  # harness bug (or an unexpected failure mode): never a VIOLATION
        signal.alarm(0)
        if len(res.harness_errors) < 5:
            res.harness_errors.append(
                {"case": case, "error": "".join(traceback.format_exception(type(ex), ex, ex.__traceback__))[-3000:]}
            )
        else:
            res.harness_errors.append({"error": type(ex).__name__})
        return "harness_error"
    finally:
        signal.alarm(0)
        signal.signal(signal.SIGALRM, old)
    res.checked += 1
    if out is None:
        out = {}
    for lab in out.get("labels", ()):
        res.labels[lab] += 1
    if out.get("nontrivial", True):
        key = out.get("key") or khash(case)
        if key not in res.keys:
            res.keys.add(key)
            # samples: the first non-trivial case of the shard (Hypothesis starts small) and two later ones
            if len(res.keys) in (1, 20, 60) and len(res.samples) < 3:
                res.samples.append(out.get("sample", case))
    return "ok"


def shard_main(args):
    pid, tier, seed, shard, nshards, examples, seconds, known_ids = args
    os.environ.setdefault("OMP_NUM_THREADS", "1")
    os.environ.setdefault("OPENBLAS_NUM_THREADS", "1")
    sys.setrecursionlimit(20000)
    t0 = time.time()
    res = ShardResult()
    ACTIVE_KNOWN.update(known_ids)
    try:
        module = importlib.import_module("vf.props." + pid.lower())
        known_preds = {k: v for k, v in getattr(module, "KNOWN", {}).items() if k in known_ids}
        case_timeout = getattr(module, "CASE_TIMEOUT", {"quick": 10, "thorough": 60})[tier]
        if hasattr(module, "warmup"):
            module.warmup()
        t0 = time.time()
        t_end = t0 + seconds
        if getattr(module, "EXHAUSTIVE", False):
            cases = module.enumerate_cases(tier)
            for k in range(shard, len(cases), nshards):
                run_one(module, tojson(cases[k]), res, known_preds, case_timeout, reraise=False)
        else:
            import hypothesis
            from hypothesis import HealthCheck, Phase, given, settings

            state = {"shrink_deadline": None}
            shrink_budget = {"quick": 25, "thorough": 180}[tier]

            @hypothesis.seed(seed * 64 + shard)
            @settings(
                max_examples=max(1, examples // nshards),
                database=None,
                deadline=None,
                derandomize=False,
                report_multiple_bugs=False,
                suppress_health_check=list(HealthCheck),
                phases=[Phase.generate, Phase.shrink],
                verbosity=hypothesis.Verbosity.quiet,
            )
            @given(module.strategy(tier))
            def test(case):
                now = time.time()
                if state["shrink_deadline"] is None:
                    if now > t_end:
                        res.stopped_by_budget = True
                        raise StopRun()
                elif now > state["shrink_deadline"]:
                    raise StopRun()
                case = tojson(case)
                try:
                    run_one(module, case, res, known_preds, case_timeout)
                except Violation:
                    if state["shrink_deadline"] is None:
                        state["shrink_deadline"] = time.time() + shrink_budget
                    raise

            try:
                test()
            except Violation:
                pass
            except StopRun:
                pass
            except hypothesis.errors.Flaky as ex:  # nondeterministic case: report, do not hide
                res.harness_errors.append({"error": "Flaky: " + str(ex)[:500]})
    except BaseException as ex:
        res.harness_errors.append(
            {"error": "shard crashed: " + "".join(traceback.format_exception(type(ex), ex, ex.__traceback__))[-3000:]}
        )
    res.wall = time.time() - t0
    return res.as_dict()


def run_replays(module, pid, known, tier):
    """Regression tier: saved cases that must pass; known findings that are expected to still fail."""
    lines = []
    viol = []
    nrep = 0
    res = ShardResult()
    timeout = 120
    if getattr(module, "TIMEOUT_IS_VIOLATION", False):
        timeout = getattr(module, "CASE_TIMEOUT", {"quick": 10, "thorough": 60})[tier]
    for path in sorted(glob.glob(os.path.join(ROOT, "replays", pid, "*.json"))):
        with open(path) as f:
            rec = json.load(f)
        nrep += 1
        st = run_one(module, rec["case"], res, {}, timeout, reraise=False)
        if st == "violation":
            viol.append(path)
        elif st == "timeout":
            lines.append(f"note: replay {path} timed out (inconclusive)")
    for kf in known:
        if kf.get("property") != pid or kf.get("status") != "known":
            continue
        path = os.path.join(ROOT, kf["replay"])
        with open(path) as f:
            rec = json.load(f)
        r2 = ShardResult()
        st = run_one(module, rec["case"], r2, {}, timeout, reraise=False)
        if st == "violation":
            lines.append(f"KNOWN-FINDING: property={pid} {kf['id']}: {kf['what']}")
        else:
            lines.append(f"note: known finding {kf['id']} did not reproduce ({st})")
    return nrep, viol, lines, res


def main(argv=None):
    ap = argparse.ArgumentParser()
    ap.add_argument("pid")
    ap.add_argument("--tier", default=os.environ.get("VERIF_TIER", "quick"), choices=["quick", "thorough"])
    ap.add_argument("--replay")
    ap.add_argument("--seed", type=int, default=int(os.environ.get("VERIF_SEED", "1")))
    ap.add_argument("--shards", type=int, default=int(os.environ.get("VERIF_SHARDS", "16")))
    ap.add_argument("--examples", type=int)
    ap.add_argument("--seconds", type=float)
    ap.add_argument("--no-evidence", action="store_true")
    a = ap.parse_args(argv)
    pid = a.pid.upper()
    sys.setrecursionlimit(20000)
    t0 = time.time()
    module = importlib.import_module("vf.props." + pid.lower())
    known = load_known()
    known_ids = [k["id"] for k in known if k.get("property") == pid and k.get("status") == "known"]

    if a.replay:
        with open(a.replay) as f:
            rec = json.load(f)
        res = ShardResult()
        st = run_one(module, rec["case"], res, {}, 600, reraise=False)
        if st == "violation":
            v = next(iter(res.violations.values()))
            print("replay: " + v["msg"])
            print(f"VIOLATION property={pid} replay={a.replay}")
            return 1
        if st == "harness_error":
            print(res.harness_errors[0]["error"])
            return 2
        print(f"replay: no violation ({st}; discards={dict(res.discards)})")
        return 0

    budget = dict(module.BUDGET[a.tier])
    if a.examples:
        budget["examples"] = a.examples
    if a.seconds:
        budget["seconds"] = a.seconds
    nshards = a.shards

    nrep, replay_viol, lines, rres = run_replays(module, pid, known, a.tier)
    for ln in lines:
        print(ln)

    jobs = [(pid, a.tier, a.seed, k, nshards, budget["examples"], budget["seconds"], known_ids) for k in range(nshards)]
    ctx = multiprocessing.get_context("fork")
    results = []
    hard_limit = budget["seconds"] * 2.5 + 240
    with ctx.Pool(nshards) as pool:
        asyncs = [pool.apply_async(shard_main, (j,)) for j in jobs]
        lost = 0
        for r in asyncs:
            remaining = max(1.0, t0 + hard_limit - time.time())
            try:
                results.append(r.get(timeout=remaining))
            except multiprocessing.TimeoutError:
                lost += 1
        pool.terminate()

    tot = ShardResult()
    tot.evaluations = rres.evaluations
    for r in results:
        tot.evaluations += r["evaluations"]
        tot.checked += r["checked"]
        tot.discards.update(r["discards"])
        tot.labels.update(r["labels"])
        tot.diverted.update(r["diverted"])
        tot.keys.update(r["keys"])
        tot.timeouts += r["timeouts"]
        tot.stopped_by_budget |= r["stopped_by_budget"]
        for k_, s in enumerate(r["samples"]):
            # one small and several typical cases
            if len(tot.samples) < 5 and (k_ > 0 or not tot.samples):
                tot.samples.append(s)
        for kind, v in r["violations"].items():
            cur = tot.violations.get(kind)
            if cur is None or v["size"] < cur["size"]:
                tot.violations[kind] = v
        tot.harness_errors.extend(r["harness_errors"])
    for kind, v in rres.violations.items():
        tot.violations.setdefault("replay:" + kind, v)
    tot.harness_errors.extend(rres.harness_errors)

    vio_paths = list(replay_viol)
    outdir = os.path.join(ROOT, "out", "violations")
    for kind, v in sorted(tot.violations.items()):
        if kind.startswith("replay:"):
            continue
        os.makedirs(outdir, exist_ok=True)
        path = os.path.join(outdir, f"{pid}-{khash(v['case'])}.json")
        with open(path, "w") as f:
            json.dump({"property": pid, "kind": kind, "msg": v["msg"], "detail": v["detail"], "case": v["case"]}, f, indent=1)
        vio_paths.append(path)
        print(f"violation[{kind}] x{v['count']}: {v['msg'][:600]}")

    wall = time.time() - t0
    # generator floors are declared for a run that uses its whole case budget; a run that was cut short by the wall
    # clock (loaded machine) is held to the same *fractions* of what it managed to generate (with a factor 1/2)
    floors = getattr(module, "LABEL_FLOORS", {}).get(a.tier, {})
    frac = min(1.0, tot.evaluations / max(1, budget["examples"]))
    low = {k: tot.labels.get(k, 0) for k, n in floors.items() if tot.labels.get(k, 0) < max(1, int(0.5 * n * frac))}
    coverage = {
        "evaluations": int(tot.evaluations),
        "checked": int(tot.checked),
        "distinct_nontrivial": len(tot.keys),
        "rule": module.RULE,
        "samples": tot.samples[:5],
        "labels": dict(sorted(tot.labels.items())),
        "discarded": dict(sorted(tot.discards.items())),
        "diverted_known_findings": dict(tot.diverted),
        "timeouts_inconclusive": tot.timeouts,
        "regression_replays": nrep,
        "shards": nshards,
        "shards_lost": lost,
        "stopped_by_wall_clock_budget": bool(tot.stopped_by_budget),
        "exhaustive": bool(getattr(module, "EXHAUSTIVE", False)) and not lost and not tot.timeouts,
        "budget": budget,
        "labels_below_floor": low,
    }
    evidence = {
        "property_id": pid,
        "tier": a.tier,
        "seed": a.seed,
        "level": getattr(module, "LEVEL", "exploration"),
        "coverage": coverage,
        "assumptions": list(getattr(module, "ASSUMPTIONS", [])),
        "wall_s": round(wall, 2),
        "violations": len(vio_paths),
    }
    if not a.no_evidence:
        os.makedirs(os.path.join(ROOT, "evidence"), exist_ok=True)
        with open(os.path.join(ROOT, "evidence", pid + ".json"), "w") as f:
            f.write(jdump(evidence))
            f.write("\n")
    print(
        f"{pid} tier={a.tier} seed={a.seed}: evaluations={tot.evaluations} checked={tot.checked} "
        f"distinct_nontrivial={len(tot.keys)} discards={sum(tot.discards.values())} diverted={sum(tot.diverted.values())} "
        f"timeouts={tot.timeouts} wall={wall:.1f}s"
    )
    if vio_paths:
        for p in vio_paths:
            print(f"VIOLATION property={pid} replay={p}")
        return 1
    if tot.harness_errors:
        print(f"HARNESS ERROR ({len(tot.harness_errors)}):")
        for h in tot.harness_errors[:3]:
            print(h.get("error", "")[-1500:])
            if "case" in h:
                print("case:", jdump(h["case"])[:1500])
        return 2
    if low:
        print("HARNESS ERROR: generator floors not reached:", low)
        return 2
    if len(tot.keys) < 2:
        print("HARNESS ERROR: fewer than 2 distinct non-trivial cases")
        return 2
    return 0


if __name__ == "__main__":
    sys.exit(main())

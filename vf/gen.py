"""Typed Hypothesis strategies producing *recipes* (JSON-able ASTs of UFL programs).

A recipe node is a list [op, ...].  Construction is target-typed: `Gen.expr(shape, free, depth)` only offers
productions whose result has the requested value shape and free-index set, so no ill-typed program is generated
and no filtering is needed.  All index dimensions equal the geometric dimension of the world.

World (JSON):
  {"cell": name, "gdim": g, "fields": {name: {"kind": "coef"|"const"|"arg", "elem": spec, "shape": [..],
                                               "number": n (args), "part": p|None}}}
"""

from hypothesis import strategies as st

INDEX_NAMES = ["i0", "i1", "i2", "i3", "i4", "i5"]
TDIM = {"interval": 1, "triangle": 2, "tetrahedron": 3, "quadrilateral": 2, "hexahedron": 3}

MATH1 = ["sqrt", "exp", "ln", "cos", "sin", "tan", "cosh", "sinh", "tanh", "acos", "asin", "atan", "erf"]
GEO_SCALAR_CELL = ["CellVolume", "Circumradius", "CellDiameter", "MinCellEdgeLength", "MaxCellEdgeLength"]
GEO_SCALAR_FACET = ["FacetArea"]


class Profile:
    def __init__(self, ops, leaves=("coef", "const", "lit"), max_rank=2, cplx=False, elements="lagrange",
                 facet=False, interior=False, manifolds=True, cells=("interval", "triangle", "tetrahedron"),
                 args=(), nindex=4, weights=None):
        self.ops = set(ops)
        self.leaves = set(leaves)
        self.max_rank = max_rank
        self.cplx = cplx
        self.elements = elements
        self.facet = facet
        self.interior = interior
        self.manifolds = manifolds
        self.cells = tuple(cells)
        self.args = tuple(args)
        self.nindex = nindex
        self.weights = weights or {}


# ------------------------------------------------------------------------------------------------ worlds
def scalar_elements(profile):
    els = [["P", 1, []], ["P", 2, []], ["P", 3, []]]
    if profile.elements != "lagrange":
        els += [["DG", 0, []], ["DG", 1, []], ["DG", 2, []], ["Real"], ["DGp", 1]]
    return els


def vector_elements(profile, g):
    els = [["P", 1, [g]], ["P", 2, [g]]]
    if profile.elements != "lagrange":
        els += [["DG", 1, [g]], ["RT", 1], ["RT", 2], ["N1", 1], ["N1", 2]]
    return els


def matrix_elements(profile, g):
    els = [["P", 1, [g, g]], ["P", 2, [g, g]]]
    if profile.elements != "lagrange":
        els += [["DG", 1, [g, g]], ["Regge", 1], ["HHJ", 1], ["GLS", 1], ["RTrows", g, 1]]
        n = g * (g + 1) // 2
        els.append(["sym", g, [["P", 1 + (k % 3), []] for k in range(n)]])
        els.append(["sym", g, [["DGp", 1] if k % 2 else ["P", 2, []] for k in range(n)]])
    return els


@st.composite
def worlds(draw, profile):
    cell = draw(st.sampled_from(profile.cells))
    t = TDIM[cell]
    g = draw(st.integers(t, 3)) if profile.manifolds else t
    if profile.interior and not profile.manifolds:
        g = t
    fields = {}

    def phys_shape(spec):
        k = spec[0]
        if k in ("P", "DG", "Quad"):
            return list(spec[2])
        if k in ("Real", "DGp"):
            return []
        if k in ("RT", "N1"):
            return [g]
        if k in ("Regge", "HHJ", "GLS"):
            return [g, g]
        if k == "RTrows":
            return [spec[1], g]
        if k == "sym":
            return [spec[1], spec[1]]
        raise ValueError(spec)

    def add(name, kind, spec, **kw):
        fields[name] = dict(kind=kind, elem=spec, shape=phys_shape(spec), **kw)

    if "coef" in profile.leaves:
        add("f0", "coef", draw(st.sampled_from(scalar_elements(profile))))
        add("f1", "coef", draw(st.sampled_from(scalar_elements(profile))))
        add("w0", "coef", draw(st.sampled_from(vector_elements(profile, g))))
        add("w1", "coef", draw(st.sampled_from(vector_elements(profile, g))))
        if profile.max_rank >= 2:
            add("m0", "coef", draw(st.sampled_from(matrix_elements(profile, g))))
            add("m1", "coef", ["P", 1, [g, g]])
        if profile.max_rank >= 3:
            add("t0", "coef", ["P", 1, [g, g, g]])
    if "const" in profile.leaves:
        fields["c0"] = dict(kind="const", shape=[])
        fields["c1"] = dict(kind="const", shape=[g])
        if profile.max_rank >= 2:
            fields["c2"] = dict(kind="const", shape=[g, g])
    for k, (number, rank) in enumerate(profile.args):
        if rank == "any":
            rank = draw(st.integers(0, 1))
        spec = draw(st.sampled_from([scalar_elements, None][0](profile) if rank == 0 else
                                    (vector_elements(profile, g) if rank == 1 else matrix_elements(profile, g))))
        add(f"a{number}", "arg", spec, number=number, part=None)
    return {"cell": cell, "gdim": g, "fields": fields}


# ------------------------------------------------------------------------------------------------ expressions
class Gen:
    def __init__(self, draw, world, profile):
        self.draw = draw
        self.w = world
        self.p = profile
        self.g = world["gdim"]
        self.t = TDIM[world["cell"]]
        self.names = INDEX_NAMES[: profile.nindex]
        self.nvars = 0
        self.vars = []  # recipes of variables, built in order
        self.var_shapes = []
        self.used = set()  # ops used (labels)

    # -- small helpers
    def pick(self, xs):
        return self.draw(st.sampled_from(list(xs)))

    def chance(self, num, den):
        return self.draw(st.integers(0, den - 1)) < num

    def lit(self, kind="any"):
        if kind == "pos":
            return ["lit", self.pick([0.5, 1, 1.5, 2, 3])]
        if kind == "int":
            return ["lit", self.pick([0, 1, 2, 3, -1, -2])]
        vals = [0, 1, 2, -1, 0.5, 2.5, -1.5, 3]
        if self.p.cplx:
            vals = vals + [{"__complex__": [0.5, 1.0]}, {"__complex__": [0.0, -2.0]}]
        return ["lit", self.pick(vals)]

    def fields_of(self, shape, kinds=None):
        out = []
        for name, f in self.w["fields"].items():
            if tuple(f["shape"]) == tuple(shape) and (kinds is None or f["kind"] in kinds) and f["kind"] in self.p.leaves | {"arg"}:
                if f["kind"] == "arg" and "arg" not in self.p.leaves:
                    continue
                out.append(name)
        return out

    def field_leaf(self, shape, kinds=None):
        """A leaf (no free indices) of exactly this shape that contains a field if possible."""
        shape = tuple(shape)
        names = self.fields_of(shape, kinds)
        if names:
            return ["fld", self.pick(names)]
        if shape == ():
            # fixed component of a vector field
            vn = self.fields_of((self.g,), kinds)
            if vn:
                return ["index", ["fld", self.pick(vn)], [self.draw(st.integers(0, self.g - 1))]]
            return self.lit()
        return ["list", [self.field_leaf(shape[1:], kinds) for _ in range(shape[0])]]

    def leaf(self, shape, free):
        shape = tuple(shape)
        free = tuple(free)
        L = self.p.leaves
        if free:
            rank = len(shape) + len(free)
            if len(free) >= 2 and (rank > max(self.p.max_rank, 1) or (rank > 3)):
                a = self.leaf(shape, free[:1])
                b = self.leaf((), free[1:])
                return ["mul", b, a]
            full = tuple(shape) + (self.g,) * len(free)
            base = self.leaf(full, ())
            perm = list(self.draw(st.permutations(list(free))))
            pos = self.draw(st.integers(0, 1)) if shape else 0
            if pos == 0 or len(shape) == 0:
                return ["index", base, [":"] * len(shape) + perm]
            # free indices first, slices after: need base with permuted axes
            full2 = (self.g,) * len(free) + tuple(shape)
            base = self.leaf(full2, ())
            return ["index", base, perm + [":"] * len(shape)]
        opts = []
        if self.fields_of(shape):
            opts += ["fld"] * 6
        if shape == () and "lit" in L:
            opts += ["lit"]
        if "zero" in L:
            opts += ["zero"]
        if "eye" in L and len(shape) == 2 and shape[0] == shape[1]:
            opts += ["eye"]
        if "perm" in L and len(shape) in (2, 3) and all(s_ == len(shape) for s_ in shape):
            opts += ["perm"]
        if "x" in L and shape == (self.g,):
            opts += ["x", "x"]
        if "geo" in L and shape == ():
            opts += ["geo"]
        if "n" in L and shape == (self.g,) and self.p.facet:
            opts += ["n", "n"]
        vrefs = [k for k, sh in enumerate(self.var_shapes) if sh == shape] if "var" in self.p.ops else []
        if vrefs:
            opts += ["varref"] * 4
        if not opts:
            return self.field_leaf(shape)
        k = self.pick(opts)
        if k == "varref":
            return ["var", self.pick(vrefs)]
        if k == "fld":
            return ["fld", self.pick(self.fields_of(shape))]
        if k == "lit":
            return self.lit()
        if k == "zero":
            return ["zero", list(shape)]
        if k == "eye":
            return ["eye", shape[0]]
        if k == "perm":
            return ["perm", len(shape)]
        if k == "x":
            return ["x"]
        if k == "n":
            return ["geo", "FacetNormal"]
        if k == "geo":
            names = list(GEO_SCALAR_CELL)
            if self.p.facet:
                names += GEO_SCALAR_FACET
            if self.t == 1:
                names = [n for n in names if n != "Circumradius"] + ["Circumradius"]
            return ["geo", self.pick(names)]
        raise AssertionError(k)

    def new_var(self, body, shape):
        self.vars.append(body)
        self.var_shapes.append(None if shape is None else tuple(shape))
        return ["var", len(self.vars) - 1]

    def unused(self, free, n=1):
        return [x for x in self.names if x not in free]

    def with_field(self, e, shape, free):
        """e + (field leaf of the same type): guarantees the operand has a domain / depends on x."""
        return ["add", e, self.leaf_field_only(shape, free)]

    def leaf_field_only(self, shape, free):
        shape = tuple(shape)
        free = tuple(free)
        full = shape + (self.g,) * len(free)
        kinds = ("coef", "arg") if ("coef" in self.p.leaves or "arg" in self.p.leaves) else None
        base = self.field_leaf(full, kinds)
        if free:
            return ["index", base, [":"] * len(shape) + list(free)]
        return base

    # -- positive / bounded scalar helpers (construction instead of rejection)
    def positive(self, a):
        return ["add", ["lit", self.pick([0.5, 1.5, 2])], ["pow", a, ["lit", 2]]]

    def bounded(self, a):
        return ["mul", ["lit", 0.5], ["fn", "sin", a]]

    def safe_cond(self):
        """a comparison of a field with a literal: decided with a margin at almost every point"""
        return [self.pick(["lt", "gt"]), self.leaf_field_only((), ()), ["lit", self.pick([0.3, -0.4, 2.5, -3])]]

    # -- main entry
    def expr(self, shape, free=(), depth=2):
        shape = tuple(shape)
        free = tuple(sorted(free))
        if depth <= 0:
            return self.leaf(shape, free)
        O = self.p.ops
        d = depth - 1
        opts = ["leaf"]
        W = self.p.weights

        def add(name, group, n=1):
            if group in O:
                opts.extend([name] * W.get(name, n))

        add("add", "arith", 2)
        add("sub", "arith")
        add("neg", "arith")
        add("smul", "arith", 2)
        add("sdiv", "arith")
        add("cond", "cond")
        if shape == () and not free:
            add("guarded", "guarded", 2)
        if shape == () and (not free or "absfree" in O):
            add("abs", "abs")
        if self.p.cplx:
            add("conj", "complexops")
            add("real", "complexops")
            add("imag", "complexops")
        add("var", "var")
        if self.p.interior:
            add("restr", "restr")
            add("jumpavg", "jumpavg")
        if shape and not free:
            add("elem_mult", "elem", 2)
            if len(shape) == 1:
                add("elem_div", "elem")
        if shape == ():
            add("mul", "arith", 2)
            if not free:
                # ufl requires "true scalars" (no shape, no free indices) here
                add("pow", "pow", 2)
                add("ipow", "ipow", 2)
                add("holo", "holo", 2)
                add("fn", "math", 2)
                add("minmax", "cond")
                add("sign", "sign")
                add("atan2", "math2")
                add("bessel", "bessel")
            add("indexfix", "index", 2)
            if len(free) + 2 <= len(self.names):
                add("contract", "index")
            if free:
                add("indexfree", "index", 2)
                add("zerobranch", "zerofree", 2)
            if len(self.names) >= 2:
                add("fixedct", "zerofree", 2)
            if len(self.unused(free)) >= 2 - (1 if free else 0):
                add("ctlist", "tensor")
            if len(self.unused(free)) >= 3:
                add("interleaved", "compound", 2)
            if len(self.unused(free)) >= 2:
                add("zerodims", "zerofree", 2)
            if len(self.unused(free)) >= 1:
                add("ctreuse", "ctreuse", 3)
            if "capture" in O and len(self.names) >= 3:
                opts.extend(["capture"] * W.get("capture", 2))
            if not free:
                add("inner", "compound", 2)
                add("dotvv", "compound")
                add("tr", "compound")
                add("det", "compound")
                add("divv", "deriv", 2)
                if self.g == 2:
                    add("curl2", "deriv")
            add("dxk", "deriv", 2)
            add("Dn", "derivn")
        else:
            add("list", "tensor", 2)
            if len(shape) == 3 and not free and not self.p.cplx and self.p.max_rank >= 3:
                add("outer3", "compound", 2)
            if len(free) + len(shape) <= len(self.names):
                add("comp", "tensor", 2)
            if len(shape) < 3:
                add("slice", "index")
            add("ellipsis", "index")
            if len(shape) >= 1 and shape[-1] == self.g and len(shape) <= 3:
                add("grad", "deriv", 3)
            if len(shape) >= 1 and shape[0] == self.g and len(shape) <= 3:
                add("nabla_grad", "deriv")
            if len(shape) < 3 and not free:
                add("divt", "deriv")
            if shape == (2,) and free:
                add("perp_free", "compound")
            if len(shape) == 1 and not free:
                add("matvec", "compound")
                add("dotmv", "compound")
                if shape == (2,):
                    add("perp", "compound")
                    if self.g == 2:
                        add("curl_s", "deriv")
                if shape == (3,):
                    add("cross", "compound")
                    if self.g == 3:
                        add("curl3", "deriv")
                add("diag_vector", "compound")
            if len(shape) == 2 and not free:
                add("T", "compound")
                add("matmul", "compound")
                add("outer", "compound", 2)
                if not self.p.cplx:
                    add("outerN", "compound")
                add("dotmm", "compound")
                if shape[0] == shape[1]:
                    add("sym", "compound")
                    add("skew", "compound")
                    if shape[0] in (2, 3):
                        add("dev", "compound")
                    add("inv", "compound")
                    if shape[0] in (2, 3):
                        add("cofac", "compound")
                    add("diag", "compound")
            if "geotensor" in O and not free and shape in ((self.g,), (self.g, self.g)):
                opts.extend(["JK"] * W.get("JK", 2))
            if "shortcut" in O and not free and len(shape) in (1, 2):
                opts.extend(["rows"] * 2)
            if "shortcut" in O and len(shape) == 2:
                opts.extend(["comp_of_indexed"] * 2)
            if "shortcut" in O and len(shape) in (2, 3) and all(s == self.g for s in shape[1:]) and len(free) + len(shape) <= len(self.names):
                opts.extend(["list_of_comps"] * 2)
        op = self.pick(opts)
        self.used.add(op)
        e = self.expr
        g = self.g
        if op == "leaf":
            return self.leaf(shape, free)
        if op == "add":
            if "pylit" in O and shape == () and not free and self.chance(1, 6):
                pl = ["pylit", self.pick([0, 1, 2, -1, 0.5, 2.5])]
                other = e(shape, free, d)
                return ["add", pl, other] if self.chance(1, 2) else ["add", other, pl]
            return ["add", e(shape, free, d), e(shape, free, d)]
        if op == "sub":
            return ["sub", e(shape, free, d), e(shape, free, d)]
        if op == "neg":
            return ["neg", e(shape, free, d)]
        if op == "smul":
            a = e((), (), d) if self.chance(2, 3) else self.lit()
            if a[0] == "lit" and "pylit" in O and self.chance(1, 2) and not isinstance(a[1], dict):
                a = ["pylit", a[1]]
            b = e(shape, free, d)
            return ["mul", a, b] if self.chance(1, 2) else ["mul", b, a]
        if op == "sdiv":
            return ["div", e(shape, free, d), self.positive(e((), (), min(d, 1)))]
        if op == "cond":
            cmpop = self.pick(["lt", "gt", "le", "ge"] + (["eq", "ne"] if "eqne" in O else []))
            c = [cmpop, e((), (), min(d, 1)), e((), (), min(d, 1))]
            if "logic" in O and self.chance(1, 4):
                c2 = [self.pick(["lt", "gt"]), e((), (), 0), e((), (), 0)]
                c = [self.pick(["and", "or"]), c, c2] if self.chance(2, 3) else ["not", c]
            return ["cond", c, e(shape, free, d), e(shape, free, d)]
        if op == "guarded":
            # a partial function guarded by a conditional: the branch that is not selected is undefined there
            a = e((), (), d)
            alt = e((), (), min(d, 1))
            k = self.pick(["sqrt", "ln", "recip", "pow", "acos"])
            if k == "sqrt":
                return ["cond", ["gt", a, ["lit", 0]], ["fn", "sqrt", a], alt]
            if k == "ln":
                return ["cond", ["le", a, ["lit", 0]], alt, ["fn", "ln", a]]
            if k == "recip":
                return ["cond", ["gt", ["abs", a], ["lit", 0.05]], ["div", alt, a], ["lit", 1]]
            if k == "pow":
                return ["cond", ["gt", a, ["lit", 0]], ["pow", a, ["lit", self.pick([0.5, 1.5, -0.5])]], alt]
            return ["cond", ["lt", ["abs", a], ["lit", 1]], ["fn", "acos", a], alt]
        if op == "abs":
            return ["abs", e(shape, free, d)]
        if op in ("conj", "real", "imag"):
            return [op, e(shape, free, d)]
        if op == "var":
            if free:
                return self.leaf(shape, free)
            return self.new_var(e(shape, free, d), shape)
        if op == "restr":
            return ["restr", e(shape, free, d), self.pick(["+", "-"])]
        if op == "jumpavg":
            return [self.pick(["jump", "avg"]), e(shape, free, d)]
        if op == "elem_mult":
            return ["elem_mult", e(shape, (), d), e(shape, (), d)]
        if op == "elem_div":
            return ["elem_div", e(shape, (), d), ["list", [self.positive(e((), (), min(d, 1))) for _ in range(shape[0])]]]
        if op == "mul":
            mask = [self.draw(st.booleans()) for _ in free]
            fa = [n for n, m in zip(free, mask) if m]
            fb = [n for n, m in zip(free, mask) if not m]
            un = self.unused(free)
            if un and "index" in O and self.chance(1, 3):
                r = self.pick(un)
                fa.append(r)
                fb.append(r)
            return ["mul", e((), fa, d), e((), fb, d)]
        if op == "pow":
            k = self.pick(["int", "int", "real", "expr", "neg"] if "powx" in O else ["int", "int", "real", "neg"])
            if k == "int":
                return ["pow", e((), free, d), ["lit", self.pick([0, 1, 2, 3])]]
            if k == "neg":
                return ["pow", self.positive(e((), free, d)), ["lit", self.pick([-1, -2, -0.5])]]
            if k == "real":
                return ["pow", self.positive(e((), free, d)), ["lit", self.pick([0.5, 1.5, 2.5, -1.5])]]
            return ["pow", self.positive(e((), free, d)), self.bounded(e((), (), min(d, 1)))]
        if op == "holo":
            # entire functions only: no branch cuts
            return ["fn", self.pick(["exp", "sin", "cos", "sinh", "cosh"]), ["mul", ["lit", 0.3], e((), free, d)]]
        if op == "ipow":
            return ["pow", e((), free, d), ["lit", self.pick([0, 1, 2, 2, 3])]]
        if op == "fn":
            f = self.pick(MATH1)
            a = e((), free, d)
            if f in ("sqrt", "ln"):
                a = self.positive(a)
            elif f in ("acos", "asin"):
                a = self.bounded(a)
            elif f in ("exp", "cosh", "sinh", "tan"):
                a = ["mul", ["lit", 0.3], ["fn", "atan", a]] if f == "tan" else ["mul", ["lit", 0.3], a]
            return ["fn", f, a]
        if op == "minmax":
            return [self.pick(["max", "min"]), e((), free, d), e((), free, d)]
        if op == "sign":
            return ["sign", e((), free, d)]
        if op == "atan2":
            return ["atan2", e((), free, d), self.positive(e((), free, min(d, 1)))]
        if op == "bessel":
            kind = self.pick(["J", "Y", "I", "K"])
            nu = self.pick([0, 1, 2, 0.5, 1.5])
            a = e((), free, d)
            if kind in ("Y", "K"):
                a = self.positive(a)
            else:
                a = ["mul", ["lit", 0.5], a]
            return ["bessel", kind, nu, a]
        if op == "indexfix":
            sh = self.pick([(g,), (g, g)] if self.p.max_rank >= 2 else [(g,)])
            return ["index", e(sh, free, d), [self.draw(st.integers(0, g - 1)) for _ in sh]]
        if op == "contract":
            un = self.unused(free)
            r = self.pick(un)
            if self.chance(1, 2) and self.p.max_rank >= 2:
                return ["index", e((g, g), free, d), [r, r]]
            return ["mul", e((), tuple(free) + (r,), d), self.leaf((), (r,))]
        if op == "indexfree":
            take = [n for n in free if self.draw(st.booleans())] or [free[0]]
            take = take[: self.p.max_rank]
            rest = [n for n in free if n not in take]
            perm = list(self.draw(st.permutations(take)))
            return ["index", e((g,) * len(take), rest, d), perm]
        if op == "fixedct":
            # a component tensor over a body with a zero branch, indexed by fixed (or partly fixed) indices:
            # every free index of the Zero is replaced by a fixed one
            un = self.unused(free)
            if not un:
                return self.leaf(shape, free)
            names = list(self.draw(st.permutations(un)))[: self.pick([1, 2]) if len(un) >= 2 else 1]
            z = ["mul", ["lit", 0], self.leaf((), tuple(names))]
            other = e((), tuple(sorted(set(free) | set(names))), min(d, 1))
            c = self.safe_cond()
            body = ["cond", c, z, other] if self.chance(1, 2) else ["cond", c, other, z]
            ct = ["as_tensor", body, names]
            return ["index", ct, [self.draw(st.integers(0, g - 1)) for _ in names]]
        if op == "zerobranch":
            # a Zero that carries the free indices, kept alive in a branch of a conditional
            z = ["mul", ["lit", 0], e((), free, min(d, 1))]
            other = e((), free, d)
            c = self.safe_cond()
            return ["cond", c, z, other] if self.chance(1, 2) else ["cond", c, other, z]
        if op == "interleaved":
            # a compound product whose operands both carry free indices that interleave (a < b < c by index count):
            # op(A[a, c, :], B[b, :]) contracted with C[a, b, c]
            a_, b_, c_ = sorted(self.unused(free))[:3] if self.chance(1, 2) else sorted(self.draw(st.permutations(self.unused(free)))[:3])
            k = self.pick(["inner", "dot", "outer", "cross"] if g == 3 else ["inner", "dot", "outer"])
            A_ = self.leaf((g,), (a_, c_)) if self.chance(2, 3) else e((g,), (a_, c_), min(d, 1))
            B_ = self.leaf((g,), (b_,)) if self.chance(2, 3) else e((g,), (b_,), min(d, 1))
            if self.chance(1, 2):
                A_, B_ = B_, A_
            x = [k, A_, B_]
            if k == "outer":
                x = ["index", x, [self.draw(st.integers(0, g - 1)), self.draw(st.integers(0, g - 1))]]
            elif k == "cross":
                x = ["index", x, [self.draw(st.integers(0, 2))]]
            out = ["mul", x, self.leaf((), (a_, b_, c_))]
            return ["mul", out, self.leaf((), free)] if free else out
        if op == "ctlist":
            # as_tensor(L[i], (j,))[p] with L a list tensor whose entries carry the free index j: the component tensor binds
            # j while the list is indexed by an index it does not bind
            un = self.unused(free)
            j = self.pick(un)
            if free and (len(un) < 2 or self.chance(1, 2)):
                i = self.pick(list(free))
                summed = False
            else:
                i = self.pick([n for n in un if n != j])
                summed = True
            L = ["list", [self.leaf((), (j,)) if self.chance(1, 2) else e((), (j,), min(d, 1)) for _ in range(g)]]
            ct = ["as_tensor", ["index", L, [i]], [j]]
            out = ["index", ct, [self.draw(st.integers(0, g - 1))]]
            if summed:
                out = ["mul", out, self.leaf((), (i,))]
            rest = tuple(n for n in free if n != i)
            return ["mul", out, self.leaf((), rest)] if rest else out
        if op == "zerodims":
            # a Zero with two free indices of *different* extents (g and g+1), alive in a conditional branch
            m = g + 1
            un = self.unused(free)
            i = self.pick(un)
            j = self.pick([n for n in un if n != i])
            c = self.safe_cond()
            if self.chance(1, 2):
                Z = ["index", ["zero", [g, m]], [i, j]]
                T = ["index", ["list", [["list", [self.leaf((), ()) for _ in range(m)]] for _ in range(g)]], [i, j]]
            else:
                Z = ["index", ["zero", [m, g]], [j, i]]
                T = ["index", ["list", [["list", [self.leaf((), ()) for _ in range(g)]] for _ in range(m)]], [j, i]]
            x = ["cond", c, Z, T] if self.chance(1, 2) else ["cond", c, T, Z]
            out = ["mul", ["mul", x, ["index", ["list", [self.leaf((), ()) for _ in range(m)]], [j]]], self.leaf((), (i,))]
            return ["mul", out, self.leaf((), free)] if free else out
        if op == "ctreuse":
            # one component tensor indexed twice with different indices: as_tensor(b(i), (i,))[p] * as_tensor(b(i), (i,))[q]
            un = self.unused(free)
            if len(un) >= 3 and self.chance(1, 2):
                # two tensors over one shared body that bind the same indices differently, indexed with the same outer index
                i, j, k = list(self.draw(st.permutations(un)))[:3]
                body = self.leaf((), (i, j)) if self.chance(1, 2) else e((), tuple(sorted((i, j))), min(d, 1))
                if len(un) >= 4 and self.chance(1, 2):
                    l_ = [n for n in un if n not in (i, j, k)][0]
                    out = ["mul", ["index", ["as_tensor", body, [i, j]], [k, l_]], ["index", ["as_tensor", body, [j, i]], [k, l_]]]
                    if self.chance(1, 2):
                        out = ["sub", ["index", ["as_tensor", body, [i, j]], [k, l_]], ["index", ["as_tensor", body, [j, i]], [k, l_]]]
                        out = ["mul", out, self.leaf((), (k, l_))]
                else:
                    out = ["mul", ["index", ["as_tensor", body, [i]], [k]], ["index", ["as_tensor", body, [j]], [k]]]
                    out = ["mul", out, self.leaf((), (i, j))]
                return ["mul", out, self.leaf((), free)] if free else out
            i = self.pick(un)
            ct = ["as_tensor", e((), (i,), min(d, 1)), [i]]
            cand = [n for n in self.names if n != i] + list(range(g))
            p_ = self.pick(cand)
            q_ = self.pick([x_ for x_ in cand if x_ != p_])
            out = ["mul", ["index", ct, [p_]], ["index", ct, [q_]]]
            for n_ in (p_, q_):
                if isinstance(n_, str) and n_ not in free:
                    out = ["mul", out, self.leaf((), (n_,))]
            rest = tuple(n_ for n_ in free if n_ not in (p_, q_))
            return ["mul", out, self.leaf((), rest)] if rest else out
        if op == "capture":
            # a component tensor whose body *binds* r (a contraction), indexed from outside by the same index r:
            # as_tensor(A[r, j] * B[r], (j,))[r]  -- r then is either free outside or summed again
            un = self.unused(free)
            if free and self.chance(1, 2):
                r = self.pick(list(free))
                rest = tuple(n for n in free if n != r)
                outer_sum = False
            else:
                if not un:
                    return self.leaf(shape, free)
                r = self.pick(un)
                rest = tuple(free)
                outer_sum = True
            cand = [n for n in self.names if n != r and n not in rest]
            if not cand:
                return self.leaf(shape, free)
            j = self.pick(cand)
            inner_sum = ["mul", self.leaf((), (r, j)) if self.chance(1, 2) else e((), tuple(sorted((r, j))), min(d, 1)),
                         self.leaf((), (r,))]
            if rest:
                inner_sum = ["mul", inner_sum, self.leaf((), rest)]
            k = self.pick(["ct", "ct", "sumct", "fixed", "survivor", "survivor", "sumvec", "sumvec"])
            if k == "sumvec":
                # a vector written with implicit summation, w = v[r] * M[r, :], indexed by the same index: w[r]
                w_ = ["mul", ["index", self.leaf((g,), ()), [r]], ["index", self.leaf((g, g), ()), [r, ":"]]]
                if self.chance(1, 3):
                    w_ = ["add", w_, self.leaf((g,), ())]
                x = ["index", w_, [r]]
                if rest:
                    x = ["mul", x, self.leaf((), rest)]
                if outer_sum:
                    return ["mul", x, self.leaf((), (r,))]
                return x
            if k == "survivor":
                # A = as_tensor(<something containing a component tensor that binds r and is not itself resolved>, (j,));
                # A[r]: replacing j by r must not let the surviving inner binder capture the new r
                inner = ["as_tensor", self.leaf((), (j, r)) if self.chance(2, 3) else e((), tuple(sorted((r, j))), min(d, 1)), [r]]
                how = self.pick(["cond", "cond", "conj", "list"])
                if how == "cond":
                    c = self.safe_cond()
                    other = self.leaf((g,), (j,))
                    keep = ["cond", c, inner, other] if self.chance(1, 2) else ["cond", c, other, inner]
                elif how == "conj":
                    keep = ["conj", inner]
                else:
                    rows = [self.leaf((g,), (j,)) for _ in range(g)]
                    rows[self.draw(st.integers(0, g - 1))] = inner
                    keep = ["index", ["list", rows], [":", self.draw(st.integers(0, g - 1))]] if False else ["list", rows]
                if how == "list":
                    body = ["index", keep, [self.draw(st.integers(0, g - 1)), self.draw(st.integers(0, g - 1))]]
                    # a fixed row is resolved by Indexed itself; index the rows with a summed index instead
                    k2 = [n for n in self.names if n not in (r, j) and n not in rest]
                    if k2:
                        q = self.pick(k2)
                        body = ["mul", ["index", keep, [q, self.draw(st.integers(0, g - 1))]], self.leaf((), (q,))]
                else:
                    body = ["index", keep, [self.draw(st.integers(0, g - 1))]]
                if rest:
                    body = ["mul", body, self.leaf((), rest)]
                x = ["index", ["as_tensor", body, [j]], [r]]
                if outer_sum:
                    return ["mul", x, self.leaf((), (r,))]
                return x
            ct = ["as_tensor", inner_sum, [j]]
            if k == "sumct":
                ct = ["add", ct, self.leaf((g,), ())]
            if k == "fixed":
                # the free index j of the body is replaced by a fixed index while the body also sums over it elsewhere
                body = ["mul", ["index", self.leaf((g,), ()), [j]],
                        ["mul", self.leaf((), (j, r)) if self.chance(1, 2) else ["index", self.leaf((g, g), ()), [j, j]], ["lit", 1]]]
                return ["mul", ["index", ["as_tensor", ["mul", self.leaf((), (j,)), ["index", self.leaf((g, g), ()), [r, r]]], [j]],
                                [self.draw(st.integers(0, g - 1))]], self.leaf((), free)] if free else \
                    ["index", ["as_tensor", ["mul", self.leaf((), (j,)), ["index", self.leaf((g, g), ()), [r, r]]], [j]],
                     [self.draw(st.integers(0, g - 1))]]
            x = ["index", ct, [r]]
            if outer_sum:
                return ["mul", x, self.leaf((), (r,))]
            return x
        if op == "inner":
            sh = self.pick([(g,), (g, g)] if self.p.max_rank >= 2 else [(g,)])
            return [self.pick(["inner", "inner", "dot"]) if len(sh) == 1 else "inner", e(sh, (), d), e(sh, (), d)]
        if op == "dotvv":
            return ["dot", e((g,), (), d), e((g,), (), d)]
        if op == "tr":
            return ["tr", e((g, g), (), d)]
        if op == "det":
            return ["det", e((g, g), (), d)]
        if op == "divv":
            return ["div", self.with_field(e((g,), free, d), (g,), free)] if False else ["divop", self.with_field(e((g,), free, d), (g,), free)]
        if op == "curl2":
            return ["curl", self.with_field(e((2,), (), d), (2,), ())]
        if op == "dxk":
            return ["dx", self.with_field(e(shape, free, d), shape, free), [self.draw(st.integers(0, g - 1))]]
        if op == "Dn":
            return ["Dn", self.with_field(e(shape, free, d), shape, free)]
        # ---- tensor valued
        if op == "outer3":
            return ["outerN", [e((shape[0],), (), d), e((shape[1],), (), d), e((shape[2],), (), d)]]
        if op == "list":
            return ["list", [e(shape[1:], free, d) for _ in range(shape[0])]]
        if op == "comp":
            un = self.unused(free)
            if len(un) < len(shape) or any(s != g for s in shape):
                return self.leaf(shape, free)
            names = list(self.draw(st.permutations(un)))[: len(shape)]
            return ["as_tensor", e((), tuple(free) + tuple(names), d), names]
        if op == "slice":
            pos = self.draw(st.integers(0, len(shape)))
            big = shape[:pos] + (g,) + shape[pos:]
            ix = [":"] * len(big)
            if free and self.chance(1, 2):
                n = self.pick(free)
                rest = [m for m in free if m != n]
                ix[pos] = n
                return ["index", e(big, rest, d), ix]
            ix[pos] = self.draw(st.integers(0, g - 1))
            return ["index", e(big, free, d), ix]
        if op == "ellipsis":
            if len(shape) >= 3:
                return self.leaf(shape, free)
            big = (g,) + shape
            return ["index", e(big, free, d), [self.draw(st.integers(0, g - 1)), "..."]]
        if op == "grad":
            return ["grad", self.with_field(e(shape[:-1], free, d), shape[:-1], free)]
        if op == "nabla_grad":
            return ["nabla_grad", self.with_field(e(shape[1:], free, d), shape[1:], free)]
        if op == "divt":
            big = shape + (g,)
            return ["divop", self.with_field(e(big, (), d), big, ())]
        if op == "matvec":
            m = self.pick([g, g, 1, 2, 3]) if "oddshape" in O else g
            return ["mul", e((shape[0], m), (), d), e((m,), (), d)]
        if op == "dotmv":
            m = self.pick([g, g, 1, 2, 3]) if "oddshape" in O else g
            return ["dot", e((shape[0], m), (), d), e((m,), (), d)]
        if op == "perp":
            return ["perp", e((2,), (), d)]
        if op == "perp_free":
            # an operator that is declared index free, applied to an operand with free indices
            return ["perp", e((2,), free, d)]
        if op == "cross":
            return ["cross", e((3,), (), d), e((3,), (), d)]
        if op == "curl_s":
            return ["curl", self.with_field(e((), (), d), (), ())]
        if op == "curl3":
            return ["curl", self.with_field(e((3,), (), d), (3,), ())]
        if op == "diag_vector":
            return ["diag_vector", e((shape[0], shape[0]), (), d)]
        if op == "T":
            return ["T", e(shape[::-1], (), d)]
        if op == "matmul":
            m = self.pick([g, g, 1, 2, 3]) if "oddshape" in O else g
            return ["mul", e((shape[0], m), (), d), e((m, shape[1]), (), d)]
        if op == "dotmm":
            m = self.pick([g, g, 1, 2, 3]) if "oddshape" in O else g
            return ["dot", e((shape[0], m), (), d), e((m, shape[1]), (), d)]
        if op == "outer":
            return ["outer", e((shape[0],), (), d), e((shape[1],), (), d)]
        if op == "outerN":
            # three operands: vector x scalar x vector, scalar x vector x vector, ... (the scalars keep the rank at 2)
            a, b_ = e((shape[0],), (), d), e((shape[1],), (), d)
            s_ = e((), (), min(d, 1))
            k = self.pick([0, 1, 2])
            ops_ = [a, b_]
            ops_.insert(k, s_)
            return ["outerN", ops_]
        if op in ("sym", "skew", "dev"):
            return [op, e(shape, (), d)]
        if op in ("inv", "cofac"):
            n = shape[0]
            # well conditioned: 3 I + 0.3 * tanh-like bounded perturbation is not expressible simply; use 3 I + 0.2*A
            return [op, ["add", ["mul", ["lit", 3], ["eye", n]], ["mul", ["lit", 0.2], e(shape, (), d)]]]
        if op == "diag":
            return ["diag", e(shape, (), d)] if self.chance(1, 2) else ["diag", e((shape[0],), (), d)]
        if op == "JK":
            # explicit Jacobian / inverse Jacobian products (tangential projector J K on manifolds, K J = I)
            J, K = ["geo", "Jacobian"], ["geo", "JacobianInverse"]
            if shape == (g,):
                v = e((g,), (), d)
                k = self.pick(["JKv", "JKv", "KtJtv"])
                if k == "JKv":
                    return ["dot", J, ["dot", K, v]]
                return ["dot", ["dot", v, J], K]
            k = self.pick(["JK", "JK", "JKJK", "JKA"])
            if k == "JK":
                return ["dot", J, K]
            if k == "JKJK":
                return ["dot", ["dot", J, ["dot", K, J]], K]
            return ["dot", ["dot", J, K], e((g, g), (), d)]
        if op == "rows":
            # rows/entries of one tensor, in or out of order (constructor shortcut shapes)
            n = shape[0]
            pos = self.draw(st.integers(0, len(shape) - 1))
            # the listed axis of the big tensor sits at position `pos`; listing it puts it first
            bshape = shape[1:pos + 1] + (n,) + shape[pos + 1:]
            big = e(bshape, (), d) if self.chance(1, 2) else self.leaf(bshape, ())
            order = list(range(n))
            if self.chance(1, 2):
                order = list(self.draw(st.permutations(order)))
            if self.chance(1, 4):
                order[0] = order[-1]
            rows = []
            for k in order:
                ix = [":"] * len(shape)
                ix[pos] = k
                rows.append(["index", big, ix])
            return ["list", rows]
        if op == "list_of_comps":
            # [as_tensor(T[k, i, j], (j, i)) for k]: rows that are component tensors over one operand
            n = shape[0]
            un = self.unused(free)
            names = list(self.draw(st.permutations(un)))[: len(shape) - 1]
            T = self.leaf((n,) + (g,) * (len(shape) - 1), ())
            inner = list(self.draw(st.permutations(names)))
            bound = list(self.draw(st.permutations(names)))
            rows = []
            order = list(range(n))
            if self.chance(1, 3):
                order = list(self.draw(st.permutations(order)))
            for k in order:
                body = ["index", T, [k] + inner]
                if free:
                    body = ["mul", body, self.leaf((), free)]
                rows.append(["as_tensor", body, bound])
            return ["list", rows]
        if op == "comp_of_indexed":
            un = self.unused(free)
            if len(un) < 2 or shape != (g, g):
                return self.leaf(shape, free)
            i, j = list(self.draw(st.permutations(un)))[:2]
            T = self.leaf((g, g) + (g,) * 0, ())
            inner_order = self.pick([[i, j], [j, i]])
            outer_order = self.pick([[i, j], [j, i]])
            body = ["index", T, inner_order]
            if free:
                body = ["mul", body, self.leaf((), free)]
            return ["as_tensor", body, outer_order]
        raise AssertionError(op)


def count_nodes(r):
    if not isinstance(r, list):
        return 0
    if r and isinstance(r[0], str):
        return 1 + sum(count_nodes(x) for x in r[1:])
    return sum(count_nodes(x) for x in r)


def ops_in(r, acc=None):
    acc = set() if acc is None else acc
    if isinstance(r, list):
        if r and isinstance(r[0], str) and r[0] not in (":", "..."):
            if not (len(r[0]) == 2 and r[0][0] == "i" and r[0][1].isdigit()) and r[0] not in ("+", "-"):
                acc.add(r[0])
        for x in r[1:] if (r and isinstance(r[0], str)) else r:
            ops_in(x, acc)
    return acc

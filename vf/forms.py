"""Form-level recipes: integrands that are multilinear in form arguments, integrals, measures, option sets.

A form case is
  {"world": ..., "vars": [...], "integrals": [{"itype": "dx"|"ds"|"dS", "sid": None|int|[int,..], "md": {...},
                                                "expr": recipe}, ...], ...}
Arguments live in the world as fields "a0", "a1" (kind "arg"); the expression grammar of vf.gen never uses them as
leaves, so everything produced by Gen.expr is argument-free and linearity in the arguments holds by construction here.
"""

from hypothesis import strategies as st

from vf.gen import TDIM


class LinGen:
    """Productions that are linear in one argument."""

    def __init__(self, G, cplx=False, derivs=True, max_rank=3, cond=True):
        self.cond = cond
        self.G = G
        self.cplx = cplx
        self.derivs = derivs
        self.max_rank = max_rank

    def lin(self, name, depth=2):
        """(recipe, shape): an expression linear in argument `name` (and containing it in every term)."""
        G = self.G
        g = G.g
        sh = tuple(G.w["fields"][name]["shape"])
        e = ["fld", name]
        for _ in range(depth):
            opts = ["stop", "stop", "scale", "neg"]
            if self.derivs and len(sh) + 1 <= self.max_rank:
                opts += ["grad", "grad", "dx"]
                if len(sh) >= 1 and sh[0] == g:
                    opts += ["nabla_grad"]
            if self.derivs and len(sh) >= 1 and sh[-1] == g:
                opts += ["div"]
            if self.derivs and ((sh == () and g == 2) or (sh == (2,) and g == 2) or (sh == (3,) and g == 3)):
                opts += ["curl"]
            if sh:
                opts += ["fix", "fix"]
            if len(sh) == 2:
                opts += ["T"]
                if sh[0] == sh[1]:
                    opts += ["sym", "skew", "tr"]
            if len(sh) == 1:
                opts += ["matvec"]
                if len(sh) + 1 <= self.max_rank:
                    opts += ["outerT"]
            if sh == ():
                opts += ["vecscale"]
            opts += ["sum", "cond", "var"]
            op = G.pick(opts)
            if op == "stop":
                break
            if op == "scale":
                c = G.expr((), (), 1)
                e = ["mul", c, e] if G.chance(1, 2) else ["mul", e, c]
            elif op == "neg":
                e = ["neg", e]
            elif op == "grad":
                e, sh = ["grad", e], sh + (g,)
            elif op == "nabla_grad":
                e, sh = ["nabla_grad", e], (g,) + sh
            elif op == "dx":
                e = ["dx", e, [G.draw(st.integers(0, g - 1))]]
            elif op == "div":
                e, sh = ["divop", e], sh[:-1]
            elif op == "curl":
                e, sh = ["curl", e], {(): (2,), (2,): (), (3,): (3,)}[sh]
            elif op == "fix":
                e, sh = ["index", e, [G.draw(st.integers(0, n - 1)) for n in sh]], ()
            elif op == "T":
                e, sh = ["T", e], sh[::-1]
            elif op in ("sym", "skew"):
                e = [op, e]
            elif op == "tr":
                e, sh = ["tr", e], ()
            elif op == "matvec":
                m = G.pick([g, 2, 3])
                e, sh = ["dot", G.expr((m, sh[0]), (), 1), e], (m,)
            elif op == "outerT":
                if self.cplx:
                    continue  # outer() conjugates its first operand
                m = G.pick([g, 2])
                e, sh = ["outer", e, G.expr((m,), (), 1)], sh + (m,)
            elif op == "vecscale":
                m = G.pick([g, 2])
                e, sh = ["mul", e, G.expr((m,), (), 1)], (m,)
            elif op == "sum":
                e = ["add", e, ["mul", G.expr((), (), 1), e]] if G.chance(1, 2) else ["sub", ["mul", ["lit", 2], e], e]
            elif op == "cond":
                if self.cplx or not self.cond:
                    continue
                c = [G.pick(["lt", "gt", "le", "ge"]), G.expr((), (), 1), G.expr((), (), 1)]
                e = ["cond", c, e, ["mul", ["lit", G.pick([2, -1, 0.5])], e]]
            elif op == "var":
                if "var" in G.p.ops:
                    # registered without a shape so that argument-free productions never refer to it
                    G.vars.append(e)
                    G.var_shapes.append(None)
                    e = ["var", len(G.vars) - 1]
        return e, sh

    def contract(self, e, sh, conj_arg=False):
        """Scalar recipe linear in the argument inside e: a contraction with an argument-free tensor T."""
        G = self.G
        if sh == ():
            c = G.expr((), (), 1)
            out = ["mul", c, e] if G.chance(1, 2) else ["mul", e, c]
            return ["conj", out] if (conj_arg and self.cplx) else out
        T = G.expr(sh, (), 1)
        if self.cplx:
            return ["inner", T, e] if conj_arg else ["inner", e, T]
        k = G.pick(["inner", "inner", "index", "dot"] if len(sh) == 1 else ["inner", "inner", "index"])
        if k == "inner":
            return ["inner", T, e] if G.chance(1, 2) else ["inner", e, T]
        if k == "dot":
            return ["dot", T, e]
        names = G.names[: len(sh)]
        return ["mul", ["index", T, list(names)], ["index", e, list(names)]]

    def term(self, argnames, depth=2):
        """Scalar integrand term, linear in each of the given arguments (antilinear in the first = test function in
        complex mode)."""
        G = self.G
        if not argnames:
            return G.expr((), (), depth + 1)
        if len(argnames) == 1:
            e, sh = self.lin(argnames[0], depth)
            return self.contract(e, sh, conj_arg=True)
        v, u = argnames[0], argnames[1]
        ev, shv = self.lin(v, depth)
        eu, shu = self.lin(u, depth)
        if shv == shu and G.chance(2, 3):
            if shv == () and not self.cplx:
                out = ["mul", eu, ev]
            else:
                out = ["inner", eu, ev]
            if G.chance(1, 2):
                out = ["mul", G.expr((), (), 1), out]
            return out
        return ["mul", self.contract(eu, shu, conj_arg=False), self.contract(ev, shv, conj_arg=True)]


def restrict_term(G, term):
    """Make a dS-admissible integrand out of a scalar term: every factor is restricted."""
    k = G.pick(["+", "-", "jump", "avg", "mixed"])
    if k in ("+", "-"):
        return ["restr", term, k]
    if k == "jump":
        return ["jump", term]
    if k == "avg":
        return ["avg", term]
    return ["mul", ["restr", term, "+"], ["restr", G.expr((), (), 1), "-"]]


SIDS = [None, None, 0, 1, 2, [1, 2], [0, 3], [2, 5, 1]]
MDS = [{}, {}, {"quadrature_degree": 2}, {"quadrature_degree": 3}, {"quadrature_rule": "vertex"},
       {"quadrature_degree": 2, "scheme": "default"}]


def draw_sid(draw):
    return draw(st.sampled_from(SIDS))


def draw_md(draw):
    return draw(st.sampled_from(MDS))


def decode_md(md):
    """JSON-able metadata -> python metadata; {"__array__": [n, seed, pos, delta]} stands for a numpy array of n
    reproducible random entries with entry `pos` shifted by `delta` (relative)."""
    import numpy as np

    if isinstance(md, dict):
        if "__ordered__" in md:
            # a dict with a given insertion order of its keys (JSON objects of a case are stored with sorted keys)
            return {k: decode_md(v) for k, v in md["__ordered__"]}
        if "__array__" in md:
            n, seed, pos, delta = md["__array__"]
            a = np.random.default_rng(seed).uniform(0.1, 1.0, n)
            if pos is not None:
                a[pos % n] *= (1.0 + delta)
            return a
        return {k: decode_md(v) for k, v in md.items()}
    if isinstance(md, list):
        return [decode_md(v) for v in md]
    return md


def build_measure(b, itg, ufl):
    sid = itg.get("sid")
    if sid is None:
        sid = "everywhere"
    elif isinstance(sid, list):
        sid = tuple(sid)
    md = decode_md(itg.get("md")) or None
    name = {"dx": "dx", "ds": "ds", "dS": "dS"}[itg["itype"]]
    return ufl.Measure(name, domain=b.meshes[int(itg.get("mesh", 0))], subdomain_id=sid, metadata=md)


def build_form(b, integrals):
    import ufl

    form = None
    exprs = []
    for itg in integrals:
        e = ufl.as_ufl(b.build(itg["expr"]))
        exprs.append(e)
        f = e * build_measure(b, itg, ufl)
        # "cd": [direction names] -- shape derivatives, left unapplied as CoordinateDerivative nodes around the integrand
        for dname in itg.get("cd", ()):
            mesh = b.meshes[int(itg.get("mesh", 0))]
            dirs = b.__dict__.setdefault("cd_directions", {})
            key = (dname, int(itg.get("mesh", 0)))
            if key not in dirs:
                dirs[key] = ufl.Coefficient(ufl.FunctionSpace(mesh, mesh.ufl_coordinate_element()))
            f = ufl.derivative(f, ufl.SpatialCoordinate(mesh), dirs[key])
        form = f if form is None else form + f
    return form, exprs


ITYPE_NAME = {"dx": "cell", "ds": "exterior_facet", "dS": "interior_facet"}


def applies_to(integrals, append_everywhere=True):
    """The grouping rule of the property statement: {(itype, sid): [indices of input integrals that apply there]}.

    An integral with a tuple id applies to each listed id; an 'everywhere' integral applies to 'otherwise' and, with
    the append option, to every numbered subdomain that occurs (for the same integral type)."""
    out = {}
    for it in sorted({i["itype"] for i in integrals}):
        nums = set()
        for i in integrals:
            if i["itype"] == it and i.get("sid") is not None:
                nums.update(i["sid"] if isinstance(i["sid"], list) else [i["sid"]])
        for s in sorted(nums):
            out[(it, s)] = [k for k, i in enumerate(integrals) if i["itype"] == it and i.get("sid") is not None
                            and s in (i["sid"] if isinstance(i["sid"], list) else [i["sid"]])]
        ev = [k for k, i in enumerate(integrals) if i["itype"] == it and i.get("sid") is None]
        if ev:
            out[(it, "otherwise")] = list(ev)
            if append_everywhere:
                for s in sorted(nums):
                    out[(it, s)] += ev
    return out

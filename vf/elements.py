"""Element zoo: own AbstractFiniteElement subclasses whose repr evaluates back to an equal object.

Element specs are JSON-able lists:
  ["P", degree, shape]      Lagrange, identity pull-back, H1
  ["DG", degree, shape]     discontinuous Lagrange, identity, L2
  ["Real"]                  degree 0, identity, HInf
  ["Quad", shape]           quadrature-like element, embedded degrees None/-1... (degree given), identity, L2
  ["RT", degree]            contravariant Piola, HDiv,  reference shape (tdim,)
  ["N1", degree]            covariant Piola, HCurl,      reference shape (tdim,)
  ["RTrows", n, degree]     contravariant Piola applied row-wise, reference shape (n, tdim)
  ["DGp", degree]           L2 Piola, L2, scalar
  ["Regge", degree]         double covariant Piola, HEin, (tdim, tdim)
  ["HHJ", degree]           double contravariant Piola, HDivDiv, (tdim, tdim)
  ["GLS", degree]           covariant-contravariant Piola, HCurlDiv, (tdim, tdim)
  ["mixed", [spec, ...]]    mixed element (nested allowed)
  ["sym", n, [spec, ...]]   symmetric n x n tensor element with n(n+1)/2 sub-elements of equal reference shape
"""

import ufl
from ufl.finiteelement import AbstractFiniteElement
from ufl.pullback import (
    IdentityPullback,
    MixedPullback,
    SymmetricPullback,
    contravariant_piola,
    covariant_contravariant_piola,
    covariant_piola,
    double_contravariant_piola,
    double_covariant_piola,
    identity_pullback,
    l2_piola,
)
from ufl.sobolevspace import H1, HCurl, HCurlDiv, HDiv, HDivDiv, HEin, HInf, L2

_PB = {
    "identity": identity_pullback,
    "contravariant": contravariant_piola,
    "covariant": covariant_piola,
    "l2": l2_piola,
    "double_contravariant": double_contravariant_piola,
    "double_covariant": double_covariant_piola,
    "covariant_contravariant": covariant_contravariant_piola,
}
_SOB = {"H1": H1, "L2": L2, "HDiv": HDiv, "HCurl": HCurl, "HInf": HInf, "HEin": HEin, "HDivDiv": HDivDiv, "HCurlDiv": HCurlDiv}


class Elem(AbstractFiniteElement):
    """Basic element.  repr == constructor call (faithful)."""

    def __init__(self, family, cellname, degree, ref_shape, pullback, sobolev, subdegree=None):
        self._family = family
        self._cellname = cellname
        self._cell = ufl.Cell(cellname)
        self._degree = degree
        self._ref_shape = tuple(ref_shape)
        self._pbname = pullback
        self._sobname = sobolev
        self._subdegree = degree if subdegree is None else subdegree
        self._repr = (
            f"Elem({family!r}, {cellname!r}, {degree!r}, {self._ref_shape!r}, {pullback!r}, {sobolev!r}, {self._subdegree!r})"
        )

    def __repr__(self):
        return self._repr

    def __str__(self):
        return f"<{self._family}{self._degree} on a {self._cellname}>"

    def __hash__(self):
        return hash(self._repr)

    def __eq__(self, other):
        return type(self) is type(other) and self._repr == other._repr

    @property
    def sobolev_space(self):
        return _SOB[self._sobname]

    @property
    def pullback(self):
        return _PB[self._pbname]

    @property
    def embedded_superdegree(self):
        return self._degree

    @property
    def embedded_subdegree(self):
        return self._subdegree

    @property
    def cell(self):
        return self._cell

    @property
    def reference_value_shape(self):
        return self._ref_shape

    @property
    def sub_elements(self):
        return []


class Mixed(AbstractFiniteElement):
    def __init__(self, subs):
        self._subs = list(subs)
        self._repr = f"Mixed({self._subs!r})"
        if all(isinstance(e.pullback, IdentityPullback) for e in self._subs):
            self._pb = identity_pullback
        else:
            self._pb = MixedPullback(self)

    def __repr__(self):
        return self._repr

    def __str__(self):
        return f"<Mixed with {len(self._subs)} sub-element(s)>"

    def __hash__(self):
        return hash(self._repr)

    def __eq__(self, other):
        return type(self) is type(other) and self._repr == other._repr

    @property
    def sobolev_space(self):
        return L2

    @property
    def pullback(self):
        return self._pb

    @property
    def embedded_superdegree(self):
        ds = [e.embedded_superdegree for e in self._subs]
        return None if any(d is None for d in ds) else max(ds)

    @property
    def embedded_subdegree(self):
        return min(e.embedded_subdegree for e in self._subs)

    @property
    def cell(self):
        return self._subs[0].cell

    @property
    def reference_value_shape(self):
        return (sum(e.reference_value_size for e in self._subs),)

    @property
    def sub_elements(self):
        return self._subs


class SymElem(AbstractFiniteElement):
    def __init__(self, n, subs):
        self._n = n
        self._subs = list(subs)
        sym = {}
        k = 0
        for i in range(n):
            for j in range(i, n):
                sym[(i, j)] = k
                sym[(j, i)] = k
                k += 1
        assert k == len(self._subs)
        self._symmetry = sym
        self._repr = f"SymElem({n!r}, {self._subs!r})"
        self._pb = SymmetricPullback(self, sym)

    def __repr__(self):
        return self._repr

    def __str__(self):
        return f"<Sym {self._n}x{self._n}>"

    def __hash__(self):
        return hash(self._repr)

    def __eq__(self, other):
        return type(self) is type(other) and self._repr == other._repr

    @property
    def sobolev_space(self):
        return L2

    @property
    def pullback(self):
        return self._pb

    @property
    def embedded_superdegree(self):
        return max(e.embedded_superdegree for e in self._subs)

    @property
    def embedded_subdegree(self):
        return min(e.embedded_subdegree for e in self._subs)

    @property
    def cell(self):
        return self._subs[0].cell

    @property
    def reference_value_shape(self):
        return (sum(e.reference_value_size for e in self._subs),)

    @property
    def sub_elements(self):
        return self._subs


TDIM = {"interval": 1, "triangle": 2, "tetrahedron": 3, "quadrilateral": 2, "hexahedron": 3}


def make_element(spec, cellname):
    """spec -> element on the named cell."""
    k = spec[0]
    t = TDIM[cellname]
    if k == "P":
        return Elem("P", cellname, spec[1], tuple(spec[2]), "identity", "H1")
    if k == "DG":
        return Elem("DG", cellname, spec[1], tuple(spec[2]), "identity", "L2")
    if k == "Real":
        return Elem("Real", cellname, 0, (), "identity", "HInf")
    if k == "Quad":
        return Elem("Quadrature", cellname, spec[1], tuple(spec[2]) if len(spec) > 2 else (), "identity", "L2")
    if k == "RT":
        return Elem("RT", cellname, spec[1], (t,), "contravariant", "HDiv", spec[1] - 1)
    if k == "N1":
        return Elem("N1curl", cellname, spec[1], (t,), "covariant", "HCurl", spec[1] - 1)
    if k == "RTrows":
        return Elem("RTrows", cellname, spec[2], (spec[1], t), "contravariant", "HDiv", spec[2] - 1)
    if k == "DGp":
        return Elem("DGp", cellname, spec[1], (), "l2", "L2")
    if k == "Regge":
        return Elem("Regge", cellname, spec[1], (t, t), "double_covariant", "HEin")
    if k == "HHJ":
        return Elem("HHJ", cellname, spec[1], (t, t), "double_contravariant", "HDivDiv")
    if k == "GLS":
        return Elem("GLS", cellname, spec[1], (t, t), "covariant_contravariant", "HCurlDiv")
    if k == "piola":
        # ["piola", kind, leading block shape, degree]: row-wise application to block-shaped reference values
        kind, lead, deg = spec[1], tuple(spec[2]), spec[3]
        tail = {"contravariant": (t,), "covariant": (t,), "l2": (), "double_contravariant": (t, t),
                "double_covariant": (t, t), "covariant_contravariant": (t, t), "identity": ()}[kind]
        sob = {"contravariant": "HDiv", "covariant": "HCurl", "l2": "L2", "double_contravariant": "HDivDiv",
               "double_covariant": "HEin", "covariant_contravariant": "HCurlDiv", "identity": "H1"}[kind]
        return Elem("piola_" + kind, cellname, deg, lead + tail, kind, sob)
    if k == "mixed":
        return Mixed([make_element(s, cellname) for s in spec[1]])
    if k == "sym":
        return SymElem(spec[1], [make_element(s, cellname) for s in spec[2]])
    raise ValueError(spec)


def coordinate_element(cellname, gdim, degree=1):
    return Elem("P", cellname, degree, (gdim,), "identity", "H1")


def make_mesh(cellname, gdim, ufl_id=None):
    return ufl.Mesh(coordinate_element(cellname, gdim), ufl_id=ufl_id)


def is_continuous(elem):
    """H1-conforming (single valued across facets)?"""
    s = elem.sobolev_space
    return s in (H1, HInf) or getattr(s, "name", "") in ("H1", "H2", "H3", "HInf")


EVAL_NS = {"Elem": Elem, "Mixed": Mixed, "SymElem": SymElem}

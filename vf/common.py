"""Shared small types for all property modules."""
import hashlib
import json


class Violation(Exception):
    """The property is violated by the current case."""

    def __init__(self, msg, detail=None):
        super().__init__(msg)
        self.msg = msg
        self.detail = detail or {}


class Discard(Exception):
    """The case is outside the property's domain / ill-conditioned / unsupported by the oracle."""

    def __init__(self, reason):
        super().__init__(reason)
        self.reason = reason


class CaseTimeout(BaseException):
    """Per-case watchdog fired (BaseException so that no `except Exception` swallows it)."""


class StopRun(BaseException):
    """Wall-clock budget of the shard is exhausted."""


def jdump(obj):
    return json.dumps(obj, sort_keys=True, default=_default)


def _default(o):
    import numpy as np

    if isinstance(o, (np.integer,)):
        return int(o)
    if isinstance(o, (np.floating,)):
        return float(o)
    if isinstance(o, complex):
        return {"__complex__": [o.real, o.imag]}
    if isinstance(o, np.ndarray):
        return o.tolist()
    if isinstance(o, (set, frozenset)):
        return sorted(o)
    if isinstance(o, tuple):
        return list(o)
    return repr(o)


def tojson(obj):
    """Normalise a case (tuples -> lists etc.) so that it equals its JSON round trip."""
    return json.loads(jdump(obj))


def khash(obj):
    return hashlib.sha1(jdump(obj).encode()).hexdigest()[:16]


def size_of(obj):
    return len(jdump(obj))

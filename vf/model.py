"""L1: semantics of the *recipe* on labelled numpy tensors.  Never looks at a UFL expression node.

A value is (array, labels): array axes = value-shape axes followed by one axis per free-index label, labels sorted
by name (which is the order ufl gives free indices, because the builder creates Index objects in name order).
Leaf values (fields, x, geometric quantities) are supplied by a callback `leaf(kind, name, side)`.
"""

import itertools

import numpy as np
import scipy.special as sp

from vf.build import decode_lit

AX = "ABCDEFGH"
LB = "abcdefghijklmnopqrstuvw"


class ModelError(Exception):
    """the recipe is ill-typed for the model (generator bug) -- never a property violation"""


class Model:
    def __init__(self, leaf, var_recipes=()):
        self.leaf = leaf
        self.var_recipes = list(var_recipes)

    # ---- helpers
    @staticmethod
    def letters(labels, table):
        return "".join(table.setdefault(n, LB[len(table)]) for n in labels)

    def ev(self, r, side=None):
        op = r[0]
        f = getattr(self, "op_" + op, None)
        if f is None:
            raise ModelError("model: unknown op " + op)
        a, labs = f(r, side)
        a = np.asarray(a)
        return a, tuple(labs)

    def scalar(self, r, side):
        a, la = self.ev(r, side)
        return a, la

    # ---- leaves
    def op_fld(self, r, s):
        return self.leaf("fld", r[1], s), ()

    def op_x(self, r, s):
        return self.leaf("x", None, s), ()

    def op_geo(self, r, s):
        return self.leaf("geo", r[1], s), ()

    def op_lit(self, r, s):
        return np.asarray(decode_lit(r[1])), ()

    op_pylit = op_lit

    def op_zero(self, r, s):
        return np.zeros(tuple(r[1])), ()

    def op_eye(self, r, s):
        return np.eye(r[1]), ()

    def op_perm(self, r, s):
        n = r[1]
        out = np.zeros((n,) * n)
        for p in itertools.permutations(range(n)):
            out[p] = round(np.linalg.det(np.eye(n)[list(p)]))
        return out, ()

    def op_var(self, r, s):
        return self.ev(self.var_recipes[r[1]], s)

    # ---- elementwise
    def _same(self, r, s):
        (a, la), (b, lb) = self.ev(r[1], s), self.ev(r[2], s)
        if la != lb or a.shape != b.shape:
            raise ModelError(f"operands differ in type: {a.shape}{la} vs {b.shape}{lb}")
        return a, b, la

    def op_add(self, r, s):
        a, b, la = self._same(r, s)
        return a + b, la

    def op_sub(self, r, s):
        a, b, la = self._same(r, s)
        return a - b, la

    def op_neg(self, r, s):
        a, la = self.ev(r[1], s)
        return -a, la

    def op_abs(self, r, s):
        a, la = self.ev(r[1], s)
        return np.abs(a), la

    def op_conj(self, r, s):
        a, la = self.ev(r[1], s)
        return np.conj(a), la

    def op_real(self, r, s):
        a, la = self.ev(r[1], s)
        return np.real(a), la

    def op_imag(self, r, s):
        a, la = self.ev(r[1], s)
        return np.imag(a), la

    def op_sign(self, r, s):
        a, la = self.ev(r[1], s)
        return np.sign(a), la

    def op_fn(self, r, s):
        a, la = self.ev(r[2], s)
        name = r[1]
        if name == "erf":
            return sp.erf(a), la
        f = {"sqrt": np.sqrt, "exp": np.exp, "ln": np.log, "cos": np.cos, "sin": np.sin, "tan": np.tan, "cosh": np.cosh,
             "sinh": np.sinh, "tanh": np.tanh, "acos": np.arccos, "asin": np.arcsin, "atan": np.arctan}[name]
        with np.errstate(all="ignore"):
            if not np.iscomplexobj(a):
                if name in ("sqrt", "ln") and np.any(a < 0) or name in ("acos", "asin") and np.any(np.abs(a) > 1):
                    return np.full(a.shape, np.nan), la
            return f(a), la

    def op_atan2(self, r, s):
        a, b, la = self._same(r, s)
        return np.arctan2(a, b), la

    def op_bessel(self, r, s):
        a, la = self.ev(r[3], s)
        f = {"J": sp.jv, "Y": sp.yv, "I": sp.iv, "K": sp.kv}[r[1]]
        with np.errstate(all="ignore"):
            return f(r[2], np.real(a)), la

    def op_max(self, r, s):
        a, b, la = self._same(r, s)
        return np.where(np.real(a) > np.real(b), a, b), la

    def op_min(self, r, s):
        a, b, la = self._same(r, s)
        return np.where(np.real(a) < np.real(b), a, b), la

    def cond(self, c, s):
        op = c[0]
        if op in ("and", "or"):
            x, y = self.cond(c[1], s), self.cond(c[2], s)
            return (x and y) if op == "and" else (x or y)
        if op == "not":
            return not self.cond(c[1], s)
        (a, la), (b, lb) = self.ev(c[1], s), self.ev(c[2], s)
        if a.shape or b.shape:
            raise ModelError("non-scalar condition")
        if op in ("eq", "ne"):
            if a == b:
                # exact equality is only robust when it holds by construction (same recipe, or literals); a
                # contraction that vanishes identically is 0.0 here and 1e-17 in another summation order
                def literal(r_):
                    return isinstance(r_, list) and r_ and (r_[0] in ("lit", "pylit", "zero") or (r_[0] == "neg" and literal(r_[1])))
                if not (c[1] == c[2] or (literal(c[1]) and literal(c[2]))):
                    self.margin = 0.0
            else:
                self.margin = min(getattr(self, "margin", np.inf), float(abs(a - b)))
            return bool(a == b) if op == "eq" else bool(a != b)
        a, b = np.real(a), np.real(b)
        self.margin = min(getattr(self, "margin", np.inf), float(abs(a - b)))
        return bool({"lt": a < b, "gt": a > b, "le": a <= b, "ge": a >= b}[op])

    def op_cond(self, r, s):
        c = self.cond(r[1], s)
        (t, lt), (f, lf) = self.ev(r[2], s), self.ev(r[3], s)
        if lt != lf or t.shape != f.shape:
            raise ModelError("conditional branches differ in type")
        return (t if c else f), lt

    # ---- products
    def _product(self, a, la, b, lb, spec_a, spec_b, spec_o):
        """einsum over shape letters given by caller + label letters; repeated labels are summed."""
        tab = {}
        sa = self.letters(la, tab)
        sb = self.letters(lb, tab)
        lo = tuple(sorted(set(la) ^ set(lb)))
        so = self.letters(lo, tab)
        return np.einsum(f"{spec_a}{sa},{spec_b}{sb}->{spec_o}{so}", a, b), lo

    def op_mul(self, r, s):
        (a, la), (b, lb) = self.ev(r[1], s), self.ev(r[2], s)
        ra, rb = a.ndim - len(la), b.ndim - len(lb)
        if ra == 0 or rb == 0:
            A = AX[:ra]
            B = AX[ra:ra + rb]
            return self._product(a, la, b, lb, A, B, A + B)
        if ra == 2 and rb in (1, 2):
            if set(la) & set(lb):
                raise ModelError("repeated indices in non-scalar product")
            if rb == 1:
                return self._product(a, la, b, lb, "AZ", "Z", "A")
            return self._product(a, la, b, lb, "AZ", "ZB", "AB")
        raise ModelError(f"invalid ranks {ra} {rb} in product")

    def op_div(self, r, s):
        (a, la), (b, lb) = self.ev(r[1], s), self.ev(r[2], s)
        if b.ndim - len(lb) != 0:
            raise ModelError("division by non-scalar")
        ra = a.ndim - len(la)
        with np.errstate(all="ignore"):
            self.min_den = min(getattr(self, "min_den", np.inf), float(np.min(np.abs(b))) if b.size else np.inf)
            return self._product(a, la, 1.0 / b, lb, AX[:ra], "", AX[:ra])

    def op_pow(self, r, s):
        (a, la), (b, lb) = self.ev(r[1], s), self.ev(r[2], s)
        if a.ndim - len(la) or b.ndim - len(lb):
            raise ModelError("power of non-scalars")
        if lb and lb != la:
            raise ModelError("labels in exponent")
        with np.errstate(all="ignore"):
            if not np.iscomplexobj(a) and not np.iscomplexobj(b):
                bb = np.asarray(b, dtype=float)
                if np.any((a < 0) & (bb != np.round(bb))):
                    return np.full(np.broadcast(a, b).shape, np.nan), la
                if np.all(bb == np.round(bb)) and bb.ndim == 0 and abs(bb) < 64:
                    return np.asarray(a, dtype=float) ** int(bb), la
            return np.asarray(a, dtype=complex if np.iscomplexobj(a) or np.iscomplexobj(b) else float) ** b, la

    def op_dot(self, r, s):
        (a, la), (b, lb) = self.ev(r[1], s), self.ev(r[2], s)
        ra, rb = a.ndim - len(la), b.ndim - len(lb)
        if ra == 0 or rb == 0:
            return self._product(a, la, b, lb, AX[:ra], AX[ra:ra + rb], AX[:ra + rb])
        A = AX[:ra - 1]
        B = AX[ra:ra + rb - 1]
        return self._product(a, la, b, lb, A + "Z", "Z" + B, A + B)

    def op_inner(self, r, s):
        (a, la), (b, lb) = self.ev(r[1], s), self.ev(r[2], s)
        ra, rb = a.ndim - len(la), b.ndim - len(lb)
        if ra != rb:
            raise ModelError("inner of different ranks")
        return self._product(a, la, np.conj(b), lb, AX[:ra], AX[:ra], "")

    def op_outer(self, r, s):
        (a, la), (b, lb) = self.ev(r[1], s), self.ev(r[2], s)
        ra, rb = a.ndim - len(la), b.ndim - len(lb)
        return self._product(np.conj(a), la, b, lb, AX[:ra], AX[ra:ra + rb], AX[:ra + rb])

    def op_outerN(self, r, s):
        # documented as repeated binary outer products from the left (real data only in the generator)
        vals = [self.ev(x, s) for x in r[1]]
        if any(la for _, la in vals):
            raise ModelError("outer with labels")
        acc = vals[0][0]
        for b, _ in vals[1:]:
            acc = np.multiply.outer(np.conj(acc), b)
        return acc, ()

    def op_cross(self, r, s):
        (a, la), (b, lb) = self.ev(r[1], s), self.ev(r[2], s)
        if la or lb:
            raise ModelError("cross with labels")
        return np.cross(a, b), ()

    def op_elem_mult(self, r, s):
        a, b, la = self._same(r, s)
        return a * b, la

    def op_elem_div(self, r, s):
        a, b, la = self._same(r, s)
        with np.errstate(all="ignore"):
            self.min_den = min(getattr(self, "min_den", np.inf), float(np.min(np.abs(b))) if b.size else np.inf)
            return a / b, la

    # ---- unary tensor algebra (no labels)
    def _nolab(self, r, s):
        a, la = self.ev(r[1], s)
        if la:
            raise ModelError("compound operator with labels")
        return a

    def op_T(self, r, s):
        a, la = self.ev(r[1], s)
        return np.swapaxes(a, 0, 1), la

    op_transpose = op_T

    def op_tr(self, r, s):
        a, la = self.ev(r[1], s)
        return np.trace(a, axis1=0, axis2=1), la

    def op_det(self, r, s):
        a = self._nolab(r, s)
        return (np.linalg.det(a) if a.ndim == 2 else a), ()

    def op_inv(self, r, s):
        a = self._nolab(r, s)
        with np.errstate(all="ignore"):
            if a.ndim == 0:
                self.min_den = min(getattr(self, "min_den", np.inf), float(abs(a)))
                return 1.0 / a, ()
            self.max_cond = max(getattr(self, "max_cond", 0.0), float(np.linalg.cond(a)))
            return np.linalg.inv(a), ()

    def op_cofac(self, r, s):
        a = self._nolab(r, s)
        self.max_cond = max(getattr(self, "max_cond", 0.0), float(np.linalg.cond(a)))
        return np.linalg.det(a) * np.linalg.inv(a).T, ()

    def op_dev(self, r, s):
        a = self._nolab(r, s)
        return a - np.trace(a) / a.shape[0] * np.eye(a.shape[0]), ()

    def op_skew(self, r, s):
        a, la = self.ev(r[1], s)
        return 0.5 * (a - np.swapaxes(a, 0, 1)), la

    def op_sym(self, r, s):
        a, la = self.ev(r[1], s)
        return 0.5 * (a + np.swapaxes(a, 0, 1)), la

    def op_perp(self, r, s):
        a, la = self.ev(r[1], s)  # (labels are trailing axes: the rotation acts on axis 0)
        return np.stack([-a[1], a[0]], axis=0), la

    def op_diag(self, r, s):
        a = self._nolab(r, s)
        if a.ndim == 1:
            return np.diag(a), ()
        return np.diag(np.diag(a)), ()

    def op_diag_vector(self, r, s):
        a = self._nolab(r, s)
        return np.diag(a).copy(), ()

    # ---- indexing / tensors
    def op_index(self, r, s):
        a, la = self.ev(r[1], s)
        rank = a.ndim - len(la)
        items = list(r[2])
        if "..." in items:
            k = items.index("...")
            items = items[:k] + [":"] * (rank - (len(items) - 1)) + items[k + 1:]
        if len(items) > rank:
            raise ModelError("too many indices")
        items = items + [":"] * (rank - len(items))
        tab = {}
        sub = ""
        out_shape = ""
        sl = []
        newlabels = []
        nshape = 0
        for k, i in enumerate(items):
            if i == ":":
                c = AX[nshape]
                nshape += 1
                sub += c
                out_shape += c
                sl.append(slice(None))
            elif isinstance(i, str):
                sub += tab.setdefault(i, LB[len(tab)])
                sl.append(slice(None))
                newlabels.append(i)
            else:
                if not (-a.shape[k] <= int(i) < a.shape[k]):
                    raise ModelError("fixed index out of range")
                sl.append(int(i))
        a2 = a[tuple(sl)]
        las = self.letters(la, tab)
        alll = list(la) + newlabels
        lo = tuple(sorted(n for n in set(alll) if alll.count(n) == 1))
        if any(alll.count(n) > 2 for n in set(alll)):
            raise ModelError("index repeated more than twice")
        los = self.letters(lo, tab)
        return np.einsum(f"{sub}{las}->{out_shape}{los}", a2), lo

    def op_as_tensor(self, r, s):
        a, la = self.ev(r[1], s)
        names = list(r[2])
        if a.ndim != len(la) or any(n not in la for n in names) or len(set(names)) != len(names):
            raise ModelError("component tensor of non-scalar / unknown index")
        rest = tuple(n for n in la if n not in names)
        tab = {}
        li = self.letters(la, tab)
        lo = self.letters(names, tab) + self.letters(rest, tab)
        return np.einsum(f"{li}->{lo}", a), rest

    def op_list(self, r, s):
        parts = [self.ev(x, s) for x in r[1]]
        l0 = parts[0][1]
        sh = parts[0][0].shape
        for p, lp in parts:
            if lp != l0 or p.shape != sh:
                raise ModelError("list tensor items differ in type")
        return np.stack([p[0] for p in parts], axis=0), l0

    # ---- restrictions (textbook)
    def op_restr(self, r, s):
        return self.ev(r[1], r[2])

    def op_jump(self, r, s):
        (a, la), (b, lb) = self.ev(r[1], "+"), self.ev(r[1], "-")
        return a - b, la

    def op_avg(self, r, s):
        (a, la), (b, lb) = self.ev(r[1], "+"), self.ev(r[1], "-")
        return 0.5 * (a + b), la

"""recipe -> live UFL objects.  The only place where UFL constructors of the expression language are called."""

import ufl
from ufl.classes import Index

from vf.elements import make_element, make_mesh
from vf.gen import INDEX_NAMES


def decode_lit(v):
    if isinstance(v, dict) and "__complex__" in v:
        return complex(*v["__complex__"])
    return v


class Builder:
    def __init__(self, world, var_recipes=()):
        self.world = world
        self.cell = world["cell"]
        self.g = world["gdim"]
        # several meshes of the same kind (multi-domain forms): world["nmesh"], fields may name theirs by "mesh": k
        self.meshes = [self.mk_mesh(k) for k in range(int(world.get("nmesh", 1)))]
        self.mesh = self.meshes[0]
        self.fields = {}
        self.spaces = {}
        for name, f in world["fields"].items():
            mesh = self.meshes[int(f.get("mesh", 0))]
            if f["kind"] == "const":
                self.fields[name] = self.mk_const(mesh, tuple(f["shape"]), name)
                continue
            el = make_element(f["elem"], self.cell)
            V = ufl.FunctionSpace(mesh, el)
            self.spaces[name] = V
            if f["kind"] == "coef":
                self.fields[name] = self.mk_coef(V, name)
            elif f["kind"] == "arg":
                self.fields[name] = ufl.Argument(V, f["number"], f.get("part"))
            else:
                raise ValueError(f["kind"])
        self.idx = {n: self.mk_index(n) for n in INDEX_NAMES}
        self.var_recipes = list(var_recipes)
        self.vars = {}
        self.x = ufl.SpatialCoordinate(self.mesh)
        self.n = ufl.FacetNormal(self.mesh)

    # -- factories (overridden by checks that control the counters of the created objects)
    def mk_mesh(self, k):
        return make_mesh(self.cell, self.g)

    def mk_const(self, mesh, shape, name):
        return ufl.Constant(mesh) if shape == () else ufl.Constant(mesh, shape=shape)

    def mk_coef(self, V, name):
        return ufl.Coefficient(V)

    def mk_index(self, name):
        return Index()

    def mk_variable(self, e, k):
        return ufl.variable(e)

    def var(self, k):
        if k not in self.vars:
            self.vars[k] = self.mk_variable(self.build(self.var_recipes[k]), k)
        return self.vars[k]

    def ix(self, items):
        out = []
        for i in items:
            if i == ":":
                out.append(slice(None))
            elif i == "...":
                out.append(Ellipsis)
            elif isinstance(i, str):
                out.append(self.idx[i])
            else:
                out.append(int(i))
        return tuple(out)

    def cond(self, c):
        op = c[0]
        B = self.build
        if op == "lt":
            return ufl.lt(B(c[1]), B(c[2]))
        if op == "gt":
            return ufl.gt(B(c[1]), B(c[2]))
        if op == "le":
            return ufl.le(B(c[1]), B(c[2]))
        if op == "ge":
            return ufl.ge(B(c[1]), B(c[2]))
        if op == "eq":
            return ufl.eq(B(c[1]), B(c[2]))
        if op == "ne":
            return ufl.ne(B(c[1]), B(c[2]))
        if op == "and":
            return ufl.And(self.cond(c[1]), self.cond(c[2]))
        if op == "or":
            return ufl.Or(self.cond(c[1]), self.cond(c[2]))
        if op == "not":
            return ufl.Not(self.cond(c[1]))
        raise ValueError(op)

    def build(self, r):
        op = r[0]
        B = self.build
        if op == "fld":
            return self.fields[r[1]]
        if op == "lit":
            return ufl.as_ufl(decode_lit(r[1]))
        if op == "pylit":  # raw python number (left to the operator's own conversion)
            return decode_lit(r[1])
        if op == "zero":
            return ufl.zero(*r[1]) if r[1] else ufl.zero()
        if op == "eye":
            return ufl.Identity(r[1])
        if op == "perm":
            return ufl.PermutationSymbol(r[1])
        if op == "x":
            return self.x
        if op == "xm":  # spatial coordinate of the k-th mesh
            return ufl.SpatialCoordinate(self.meshes[r[1]])
        if op == "geom":  # geometric quantity of the k-th mesh
            return getattr(ufl.classes, r[1])(self.meshes[r[2]])
        if op == "geo":
            return getattr(ufl.classes, r[1])(self.mesh)
        if op == "var":
            return self.var(r[1])
        if op == "add":
            return B(r[1]) + B(r[2])
        if op == "sub":
            return B(r[1]) - B(r[2])
        if op == "neg":
            return -B(r[1])
        if op == "mul":
            return B(r[1]) * B(r[2])
        if op == "div":
            return B(r[1]) / B(r[2])
        if op == "pow":
            return B(r[1]) ** B(r[2])
        if op == "abs":
            return abs(B(r[1]))
        if op == "conj":
            return ufl.conj(B(r[1]))
        if op == "real":
            return ufl.real(B(r[1]))
        if op == "imag":
            return ufl.imag(B(r[1]))
        if op == "sign":
            return ufl.sign(B(r[1]))
        if op == "fn":
            return getattr(ufl, r[1])(B(r[2]))
        if op == "atan2":
            return ufl.atan2(B(r[1]), B(r[2]))
        if op == "bessel":
            return getattr(ufl, "bessel_" + r[1])(r[2], B(r[3]))
        if op == "max":
            return ufl.max_value(B(r[1]), B(r[2]))
        if op == "min":
            return ufl.min_value(B(r[1]), B(r[2]))
        if op == "cond":
            return ufl.conditional(self.cond(r[1]), B(r[2]), B(r[3]))
        if op == "index":
            return B(r[1])[self.ix(r[2])]
        if op == "as_tensor":
            return ufl.as_tensor(B(r[1]), tuple(self.idx[n] for n in r[2]))
        if op == "list":
            return ufl.as_tensor([B(x) for x in r[1]])
        if op == "T":
            return B(r[1]).T
        if op in ("tr", "det", "inv", "cofac", "dev", "skew", "sym", "perp", "diag", "diag_vector", "transpose",
                  "grad", "curl", "nabla_grad", "nabla_div", "jump", "avg", "exp", "cell_avg", "facet_avg"):
            return getattr(ufl, op)(B(r[1]))
        if op == "divop":
            return ufl.div(B(r[1]))
        if op in ("dot", "inner", "outer", "cross", "elem_mult", "elem_div", "elem_pow", "elem_op"):
            return getattr(ufl, op)(B(r[1]), B(r[2]))
        if op == "extop":  # ["extop", operand, derivative multi-index, element spec]: an ExternalOperator (scalar valued)
            from ufl.core.external_operator import ExternalOperator

            V = ufl.FunctionSpace(self.mesh, make_element(r[3], self.cell))
            return ExternalOperator(B(r[1]), function_space=V, derivatives=tuple(r[2]))
        if op == "outerN":  # outer product of three or more operands
            return ufl.outer(*[B(x) for x in r[1]])
        if op == "dx":
            return B(r[1]).dx(*self.ix(r[2]))
        if op == "Dn":
            return ufl.Dn(B(r[1]))
        if op == "restr":
            return ufl.as_ufl(B(r[1]))(r[2])  # (math functions of literals fold to python floats)
        if op == "jumpn":
            return ufl.jump(B(r[1]), self.n)
        if op == "diff":
            return ufl.diff(B(r[1]), B(r[2]))
        raise ValueError(f"unknown recipe op {op!r}")

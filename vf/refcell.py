"""Reference-cell tables (FEniCS/basix numbering) and geometry computed directly from vertex coordinates.

Nothing here calls into ufl.  Conventions: DESIGN.md section 7.1.
"""

import itertools
import math

import numpy as np

REF = {
    "interval": dict(
        verts=np.array([[0.0], [1.0]]), facets=[(0,), (1,)], vol=1.0, fvol=1.0, edges=[(0, 1)],
    ),
    "triangle": dict(
        verts=np.array([[0.0, 0.0], [1.0, 0.0], [0.0, 1.0]]),
        facets=[(1, 2), (0, 2), (0, 1)], vol=0.5, fvol=1.0, edges=[(1, 2), (0, 2), (0, 1)],
    ),
    "tetrahedron": dict(
        verts=np.array([[0.0, 0, 0], [1.0, 0, 0], [0, 1.0, 0], [0, 0, 1.0]]),
        facets=[(1, 2, 3), (0, 2, 3), (0, 1, 3), (0, 1, 2)], vol=1 / 6, fvol=0.5,
        edges=[(2, 3), (1, 3), (1, 2), (0, 3), (0, 2), (0, 1)],
    ),
}
TDIM = {"interval": 1, "triangle": 2, "tetrahedron": 3}


def ref_facet_normal(cellname, facet):
    r = REF[cellname]
    V = r["verts"]
    t = V.shape[1]
    fv = r["facets"][facet]
    opp = [i for i in range(len(V)) if i not in fv][0]
    if t == 1:
        n = V[fv[0]] - V[opp]
    else:
        T = np.array([V[fv[k]] - V[fv[0]] for k in range(1, len(fv))])
        _, _, vt = np.linalg.svd(T)
        n = vt[-1]
        if np.dot(n, V[fv[0]] - V[opp]) < 0:
            n = -n
    return n / np.linalg.norm(n)


def cell_facet_jacobian(cellname, facet):
    r = REF[cellname]
    V = r["verts"]
    fv = r["facets"][facet]
    return np.array([V[fv[k]] - V[fv[0]] for k in range(1, len(fv))]).T.reshape(V.shape[1], len(fv) - 1)


def ref_cell_edge_vectors(cellname):
    r = REF[cellname]
    V = r["verts"]
    return np.array([V[b] - V[a] for a, b in r["edges"]])


def ref_facet_edge_vectors(cellname):
    """Tetrahedron: for every facet, its 3 edges (facet-local triangle edge numbering) in reference coordinates."""
    r = REF[cellname]
    V = r["verts"]
    loc = [(1, 2), (0, 2), (0, 1)]
    return np.array([[V[fv[b]] - V[fv[a]] for a, b in loc] for fv in r["facets"]])


def simplex_volume(P):
    """Volume of the simplex with vertex rows P (any embedding dimension) via the Gram determinant."""
    E = P[1:] - P[0]
    t = len(E)
    if t == 0:
        return 1.0
    return math.sqrt(max(np.linalg.det(E @ E.T), 0.0)) / math.factorial(t)


def circumradius(P):
    E = P[1:] - P[0]
    G = E @ E.T
    a = np.linalg.solve(2 * G, np.diag(G))
    c = P[0] + a @ E
    return float(np.linalg.norm(c - P[0]))


class Geometry:
    """An affine simplex cell given by its vertices (rows) in R^gdim, plus the quantities ufl names."""

    def __init__(self, cellname, verts, orientation=1.0):
        self.cellname = cellname
        self.V = np.asarray(verts, dtype=float)
        self.tdim = TDIM[cellname]
        self.gdim = self.V.shape[1]
        assert self.V.shape[0] == self.tdim + 1
        self.x0 = self.V[0]
        self.J = (self.V[1:] - self.V[0]).T.reshape(self.gdim, self.tdim)
        self.orientation = float(orientation)
        self.K = np.linalg.pinv(self.J)
        if self.tdim == self.gdim:
            self.detJ = float(np.linalg.det(self.J))
        else:
            self.detJ = self.orientation * math.sqrt(np.linalg.det(self.J.T @ self.J))

    @staticmethod
    def random(rng, cellname, gdim, max_cond=50.0):
        t = TDIM[cellname]
        for _ in range(200):
            V = rng.uniform(-1, 1, (t + 1, gdim)) * rng.choice([0.5, 1.0, 2.0])
            if rng.integers(0, 3) == 0:
                V = V + 1.5 * np.eye(t + 1, gdim)
            V = V + rng.uniform(-3, 3, (1, gdim))
            J = (V[1:] - V[0]).T
            s = np.linalg.svd(J, compute_uv=False)
            if s[-1] > 0.15 and s[0] / s[-1] < max_cond:
                return Geometry(cellname, V, orientation=rng.choice([-1.0, 1.0]))
        raise RuntimeError("no non-degenerate cell found")

    # ---- points
    def x(self, X):
        return self.x0 + self.J @ np.asarray(X, dtype=float)

    def random_cell_point(self, rng):
        b = rng.dirichlet(np.ones(self.tdim + 1) * 2.0)
        return REF[self.cellname]["verts"].T @ b

    def random_facet_point(self, rng, facet):
        r = REF[self.cellname]
        fv = r["facets"][facet]
        b = rng.dirichlet(np.ones(len(fv)) * 2.0)
        return sum(bi * r["verts"][v] for bi, v in zip(b, fv))

    def X_of(self, x):
        return self.K @ (np.asarray(x) - self.x0)

    # ---- direct geometric quantities
    def volume(self):
        return simplex_volume(self.V)

    def circumradius(self):
        if self.tdim == 1:
            return 0.5 * float(np.linalg.norm(self.V[1] - self.V[0]))
        return circumradius(self.V)

    def edge_lengths(self):
        return [float(np.linalg.norm(self.V[a] - self.V[b])) for a, b in REF[self.cellname]["edges"]]

    def facet_vertices(self, facet):
        return self.V[list(REF[self.cellname]["facets"][facet])]

    def facet_area(self, facet):
        if self.tdim == 1:
            return 1.0
        return simplex_volume(self.facet_vertices(facet))

    def facet_edge_lengths(self, facet):
        FV = self.facet_vertices(facet)
        return [float(np.linalg.norm(FV[a] - FV[b])) for a, b in itertools.combinations(range(len(FV)), 2)]

    def facet_jacobian(self, facet):
        return self.J @ cell_facet_jacobian(self.cellname, facet)

    def facet_normal(self, facet):
        """Unit vector in the cell's tangent space, orthogonal to the facet, pointing away from the opposite vertex."""
        fv = REF[self.cellname]["facets"][facet]
        opp = [i for i in range(self.tdim + 1) if i not in fv][0]
        Q, _ = np.linalg.qr(self.J)
        d = self.V[fv[0]] - self.V[opp]
        d = Q @ (Q.T @ d)
        if len(fv) > 1:
            Tf = np.array([self.V[fv[k]] - self.V[fv[0]] for k in range(1, len(fv))])
            Qf, _ = np.linalg.qr(Tf.T)
            d = d - Qf @ (Qf.T @ d)
        return d / np.linalg.norm(d)

    def cell_normal_ok(self, n):
        """Validity predicate for CellNormal on codimension-1 manifolds: unit and orthogonal to the cell."""
        return abs(np.linalg.norm(n) - 1) < 1e-9 and np.allclose(self.J.T @ n, 0, atol=1e-9)

"""L2: reference interpreter  UFL expression DAG -> value (truncated Taylor jets on a concrete affine cell).

Values are numpy arrays of shape (M,) + ufl_shape + index_dimensions; M = number of jet coefficients
(order 0 => M = 1).  Jet variables: reference coordinates X_0..X_{t-1}, then `nextra` perturbation symbols.
Nothing in here calls a ufl algorithm; ufl is only used to *read* the DAG (types, operands, shapes, indices).
"""

import itertools
import math
import string
import zlib

import numpy as np

from ufl.classes import FixedIndex, MultiIndex
from ufl.pullback import (
    ContravariantPiola,
    CovariantContravariantPiola,
    CovariantPiola,
    DoubleContravariantPiola,
    DoubleCovariantPiola,
    IdentityPullback,
    L2Piola,
    MixedPullback,
    SymmetricPullback,
)

from vf import jets as jt
from vf.refcell import REF, Geometry, cell_facet_jacobian, ref_cell_edge_vectors, ref_facet_edge_vectors, ref_facet_normal


class Unsupported(NotImplementedError):
    pass


class IllConditioned(Exception):
    pass


LETTERS = string.ascii_letters


# ------------------------------------------------------------------------------------------ push-forward (7.2)
def pushforward(el, r, geo):
    """Reference value r (leading batch axes allowed, trailing axes = reference_value_shape) -> physical value."""
    pb = el.pullback
    J, K, dJ = geo.J, geo.K, geo.detJ
    rs = tuple(el.reference_value_shape)
    batch = r.shape[: r.ndim - len(rs)]
    subs = list(el.sub_elements)
    if isinstance(pb, SymmetricPullback):
        sym = pb._symmetry
        bs = tuple(i + 1 for i in max(sym.keys()))
        flat = r.reshape(batch + (-1,))
        offs = [0]
        for se in subs:
            offs.append(offs[-1] + se.reference_value_size)
        blocks = []
        for comp in np.ndindex(bs):
            i = sym[comp]
            se = subs[i]
            blocks.append(pushforward(se, flat[..., offs[i]:offs[i + 1]].reshape(batch + tuple(se.reference_value_shape)), geo))
        sub_shape = blocks[0].shape[len(batch):]
        out = np.stack(blocks, axis=len(batch))
        return out.reshape(batch + bs + sub_shape)
    if isinstance(pb, MixedPullback) or (subs and isinstance(pb, IdentityPullback)):
        flat = r.reshape(batch + (-1,))
        out = []
        off = 0
        for se in subs:
            n = se.reference_value_size
            v = pushforward(se, flat[..., off:off + n].reshape(batch + tuple(se.reference_value_shape)), geo)
            out.append(v.reshape(batch + (-1,)))
            off += n
        return np.concatenate(out, axis=-1)
    if isinstance(pb, IdentityPullback):
        return r
    if isinstance(pb, ContravariantPiola):
        return np.einsum("ij,...j->...i", J / dJ, r)
    if isinstance(pb, CovariantPiola):
        return np.einsum("ji,...j->...i", K, r)
    if isinstance(pb, L2Piola):
        return r / dJ
    if isinstance(pb, DoubleContravariantPiola):
        return np.einsum("im,...mn,jn->...ij", J, r, J) / dJ ** 2
    if isinstance(pb, DoubleCovariantPiola):
        return np.einsum("mi,...mn,nj->...ij", K, r, K)
    if isinstance(pb, CovariantContravariantPiola):
        return np.einsum("mi,...mn,jn->...ij", K, r, J) / dJ
    raise Unsupported(f"pullback {pb!r}")


# ------------------------------------------------------------------------------------------ environment
class Env:
    """One side of a point: a cell, a reference point, a facet number, and a (lazy, order independent) valuation
    of constants and form arguments.

    mode "poly":  every form argument has polynomial reference components (degree <= pdeg) in X;
                  physical value = own push-forward; derivatives by jets.
    mode "atoms": free valuation; every terminal derivative tower is an independent random atom.
    """

    def __init__(self, geo, X=None, facet=0, weight=0.7, seed=0, cplx=False, mode="poly", pdeg=3, side=None):
        self.geo = geo
        self.X = np.asarray(X if X is not None else np.full(geo.tdim, 1.0 / (geo.tdim + 2)), dtype=float)
        self.facet = facet
        self.weight = weight
        self.seed = int(seed)
        self.cplx = cplx
        self.mode = mode
        self.pdeg = pdeg
        self.side = side
        self.fixed = {}  # key -> array: explicitly assigned values (constants, atoms, reference values)
        self.phys_poly = {}  # key -> (coef array [comps, nmono], ) physical-space polynomial (continuous two-sided fields)
        self.degree_of = None  # optional callable(form argument) -> polynomial degree per reference component
        self.integer_coeffs = False
        self.physical_fields = False  # every form argument is a polynomial in the *physical* coordinates (C24)

    def rng(self, key):
        return np.random.default_rng([self.seed, zlib.crc32(key.encode())])

    def rand(self, key, shape, cplx=None):
        if key in self.fixed:
            return self.fixed[key]
        r = self.rng(key)
        v = r.uniform(-1, 1, shape)
        if self.cplx if cplx is None else cplx:
            v = v + 1j * r.uniform(-1, 1, shape)
        return v

    @property
    def x(self):
        return self.geo.x(self.X)


def two_sided(rng, cellname, seed=0, cplx=False, mode="poly", gdim=None):
    """Two cells sharing a facet, with a common physical point on it.  gdim == tdim: flat mesh; gdim > tdim: a
    surface/curve mesh that is folded at the shared facet (the '-' cell leaves the plane of the '+' cell)."""
    t = {"interval": 1, "triangle": 2, "tetrahedron": 3}[cellname]
    g = t if gdim is None else gdim
    gp = Geometry.random(rng, cellname, g)
    fp = int(rng.integers(0, t + 1))
    fm = int(rng.integers(0, t + 1))
    fvp = REF[cellname]["facets"][fp]
    fvm = REF[cellname]["facets"][fm]
    shared = gp.V[list(fvp)]
    perm = rng.permutation(len(fvp))
    opp_m = [i for i in range(t + 1) if i not in fvm][0]
    n = gp.facet_normal(fp)
    centroid = shared.mean(axis=0)
    # the '-' cell's extra vertex: on the other side of the facet
    for _ in range(200):
        vm = centroid + n * rng.uniform(0.4, 1.5)
        if t > 1:
            # tangential shift along the facet
            T = shared[1:] - shared[0]
            vm = vm + rng.uniform(-0.4, 0.4, len(T)) @ T
        if g > t:
            vm = vm + rng.uniform(-0.8, 0.8, g)
        Vm = np.zeros((t + 1, g))
        for loc, glob in zip(fvm, perm):
            Vm[loc] = shared[glob]
        Vm[opp_m] = vm
        Jm = (Vm[1:] - Vm[0]).T
        s = np.linalg.svd(Jm, compute_uv=False)
        if s[-1] > 0.1 and s[0] / s[-1] < 60 and float(n @ (vm - centroid)) > 0.2:
            break
    else:
        raise RuntimeError("no '-' cell")
    gm = Geometry(cellname, Vm, orientation=float(rng.choice([-1.0, 1.0])) if g > t else 1.0)
    Xp = gp.random_facet_point(rng, fp)
    x = gp.x(Xp)
    Xm = gm.X_of(x)
    w = float(rng.uniform(0.1, 1.0))
    ep = Env(gp, Xp, fp, w, seed, cplx, mode, side="+")
    em = Env(gm, Xm, fm, w, seed, cplx, mode, side="-")
    return {"+": ep, "-": em, None: ep}


# ------------------------------------------------------------------------------------------ interpreter
class Interp:
    def __init__(self, envs, order=0, nextra=0):
        if isinstance(envs, Env):
            envs = {None: envs, "+": envs, "-": envs}
        self.envs = envs
        self.two_sided = envs["+"] is not envs["-"]
        self.tdim = envs[None].geo.tdim
        self.gdim = envs[None].geo.gdim
        self.js = jt.jetspace(self.tdim + nextra, order)
        self.M = self.js.M
        self.memo = {}
        self._ids = {}
        self._intern = {}
        self._keep = []
        self._handlers = {}
        self._mono = {}
        # oracle hooks
        self.perturb = {}  # terminal repr -> list of (jet var index, direction (Expr | ndarray))
        self.var_perturb = {}  # variable label count -> list of (jet var index, component tuple)
        self.term_perturb = {}  # terminal repr -> list of (jet var index, component tuple)  (diff w.r.t. coefficient)
        self.subst = {}  # terminal repr -> Expr: evaluate this terminal as the value of its image (C21)
        self.subst_simultaneous = False  # images are evaluated without substitution (C21: replace is simultaneous)
        self.alias = {}  # repr of a renumbered form argument -> the original one (same field, FormData replace map)
        self.continuous = None  # callable(form argument) -> bool (two-sided poly mode: physical polynomial shared by sides)
        self.flags = set()
        self.min_den = math.inf
        self.geo_by_domain = {}  # repr(mesh) -> Geometry for meshes other than the environment's
        self.saw_nan = False
        self.max_inter = 0.0  # largest |value| of any sub-expression (cancellation of huge terms leaves visible noise)
        self.max_fn_arg = 0.0  # largest |argument| handed to a math/Bessel function (sin(2e5) amplifies rounding by 2e5)
        self._clean = None

    # ---------------------------------------------------------------- keys / dispatch
    def skey(self, e):
        k = self._ids.get(id(e))
        if k is not None:
            return k
        if e._ufl_is_terminal_:
            if isinstance(e, MultiIndex):
                desc = ("MI",) + tuple(("F", int(i)) if isinstance(i, FixedIndex) else ("I", i.count()) for i in e)
            else:
                desc = (type(e).__name__, repr(e))
        else:
            desc = (type(e).__name__,) + tuple(self.skey(o) for o in e.ufl_operands)
        k = self._intern.setdefault(desc, len(self._intern))
        self._ids[id(e)] = k
        self._keep.append(e)
        return k

    def __call__(self, e, side=None):
        return self.val(e, side)

    def value(self, e, side=None):
        """Plain value (order-0 coefficient)."""
        return self.val(e, side)[0]

    def val(self, e, side=None):
        key = (self.skey(e), side)
        v = self.memo.get(key)
        if v is not None:
            return v
        h = self._handlers.get(type(e))
        if h is None:
            for c in type(e).__mro__:
                h = getattr(self, "ev_" + c.__name__, None)
                if h is not None:
                    break
            else:
                raise Unsupported(type(e).__name__)
            self._handlers[type(e)] = h
        v = np.asarray(h(e, side))
        exp = tuple(e.ufl_shape) + tuple(e.ufl_index_dimensions)
        if v.shape[1:] != exp:
            raise AssertionError(f"interp shape bug at {type(e).__name__}: {v.shape[1:]} vs {exp}")
        if v.size:
            m = float(np.max(np.abs(v[0])))
            if m > self.max_inter:  # (NaN compares false)
                self.max_inter = m
            if m != m or (v.shape[0] > 1 and np.isnan(v).any()):
                # an undefined sub-expression (bessel_J(1.5, x < 0), ...) that the semantics did evaluate
                self.saw_nan = True
        self.memo[key] = v
        return v

    def env(self, side):
        return self.envs[side]

    def image_val(self, img, side):
        """value of the image of a substituted terminal"""
        if not self.subst_simultaneous:
            return self.val(img, side)
        if self._clean is None:
            self._clean = Interp(self.envs, self.js.N, self.js.n - self.tdim)
            self._clean.continuous = self.continuous
        return self._clean.val(img, side)

    def const(self, v):
        return self.js.const(np.asarray(v))

    @staticmethod
    def lab():
        m = {}

        def f(c):
            if c not in m:
                m[c] = LETTERS[len(m)]
            return m[c]

        return f

    # ---------------------------------------------------------------- literals
    def ev_Zero(self, e, s):
        return self.const(np.zeros(tuple(e.ufl_shape) + tuple(e.ufl_index_dimensions)))

    def ev_ScalarValue(self, e, s):
        return self.const(np.asarray(e.value()))

    def ev_Identity(self, e, s):
        return self.const(np.eye(e.ufl_shape[0]))

    def ev_PermutationSymbol(self, e, s):
        n = e.ufl_shape[0]
        out = np.zeros((n,) * n)
        for p in itertools.permutations(range(n)):
            out[p] = np.linalg.det(np.eye(n)[list(p)])
        return self.const(np.round(out))

    def ev_Label(self, e, s):
        raise Unsupported("Label")

    # ---------------------------------------------------------------- geometry
    def _geo(self, e, s):
        env = self.env(s)
        geo = env.geo
        if self.geo_by_domain:
            # several meshes in one expression: the geometry of the mesh the quantity belongs to
            geo = self.geo_by_domain.get(repr(e.ufl_domain()), geo)
        cn = geo.cellname
        n = type(e).__name__
        f = env.facet
        t, g = geo.tdim, geo.gdim
        if n == "Jacobian":
            return geo.J
        if n == "JacobianInverse":
            return geo.K
        if n == "JacobianDeterminant":
            return geo.detJ
        if n == "CellOrientation":
            return geo.orientation
        if n == "QuadratureWeight":
            return env.weight
        if n == "CellOrigin":
            return geo.x0
        if n == "CellVertices":
            return geo.V
        if n == "CellEdgeVectors":
            return np.array([geo.V[b] - geo.V[a] for a, b in REF[cn]["edges"]])
        if n == "ReferenceCellEdgeVectors":
            return ref_cell_edge_vectors(cn)
        if n == "ReferenceFacetEdgeVectors":
            return ref_facet_edge_vectors(cn)
        if n == "FacetEdgeVectors":
            FV = geo.facet_vertices(f)
            return np.array([FV[b] - FV[a] for a, b in [(1, 2), (0, 2), (0, 1)]])
        if n == "ReferenceCellVolume":
            return REF[cn]["vol"]
        if n == "ReferenceFacetVolume":
            return REF[cn]["fvol"]
        if n == "ReferenceNormal":
            return ref_facet_normal(cn, f)
        if n == "CellFacetJacobian":
            return cell_facet_jacobian(cn, f)
        if n == "CellFacetJacobianDeterminant":
            C = cell_facet_jacobian(cn, f)
            return math.sqrt(np.linalg.det(C.T @ C)) if t > 1 else 1.0
        if n == "CellFacetJacobianInverse":
            return np.linalg.pinv(cell_facet_jacobian(cn, f))
        if n == "FacetJacobian":
            return geo.facet_jacobian(f)
        if n == "FacetJacobianDeterminant":
            FJ = geo.facet_jacobian(f)
            return math.sqrt(np.linalg.det(FJ.T @ FJ)) if t > 1 else 1.0
        if n == "FacetJacobianInverse":
            return np.linalg.pinv(geo.facet_jacobian(f))
        if n in ("CellRidgeJacobian", "RidgeJacobian", "RidgeJacobianDeterminant", "RidgeJacobianInverse",
                 "CellRidgeJacobianDeterminant", "CellRidgeJacobianInverse"):
            if t != 3:
                raise Unsupported(n + " for tdim != 3")
            a, b = REF[cn]["edges"][getattr(env, "ridge", 0)]
            C = (REF[cn]["verts"][b] - REF[cn]["verts"][a]).reshape(t, 1)
            if n == "CellRidgeJacobian":
                return C
            if n == "CellRidgeJacobianDeterminant":
                return float(np.linalg.norm(C))
            if n == "CellRidgeJacobianInverse":
                return np.linalg.pinv(C)
            RJ = geo.J @ C
            if n == "RidgeJacobian":
                return RJ
            if n == "RidgeJacobianDeterminant":
                return float(np.linalg.norm(RJ))
            return np.linalg.pinv(RJ)
        if n == "FacetOrigin":
            return geo.facet_vertices(f)[0]
        if n == "CellFacetOrigin":
            return REF[cn]["verts"][REF[cn]["facets"][f][0]]
        if n == "FacetNormal":
            return geo.facet_normal(f)
        if n == "CellNormal":
            if t == 2 and g == 3:
                c = np.cross(geo.J[:, 0], geo.J[:, 1])
            elif t == 1 and g == 2:
                c = np.array([-geo.J[1, 0], geo.J[0, 0]])
            else:
                raise Unsupported("CellNormal for this cell")
            return geo.orientation * c / np.linalg.norm(c)
        if n == "CellVolume":
            return geo.volume()
        if n == "Circumradius":
            return geo.circumradius()
        if n == "CellDiameter":
            return max(np.linalg.norm(geo.V[a] - geo.V[b]) for a in range(t + 1) for b in range(a))
        if n == "MinCellEdgeLength":
            return min(geo.edge_lengths())
        if n == "MaxCellEdgeLength":
            return max(geo.edge_lengths())
        if n == "FacetArea":
            return geo.facet_area(f)
        if n == "MinFacetEdgeLength":
            return min(geo.facet_edge_lengths(f))
        if n == "MaxFacetEdgeLength":
            return max(geo.facet_edge_lengths(f))
        raise Unsupported(n)

    def ev_GeometricQuantity(self, e, s):
        v = np.asarray(self._geo(e, s), dtype=float)
        return self.const(v.reshape(e.ufl_shape))

    def ev_SpatialCoordinate(self, e, s):
        env = self.env(s)
        rep = repr(e)
        if rep in self.subst:
            return self.image_val(self.subst[rep], s)
        out = self.const(env.x)
        if self.js.N >= 1:
            for k in range(self.tdim):
                out[self.js.unit(k)] = env.geo.J[:, k]
        return out

    def ev_CellCoordinate(self, e, s):
        env = self.env(s)
        out = self.const(env.X)
        if self.js.N >= 1:
            for k in range(self.tdim):
                out[self.js.unit(k), k] = 1.0
        return out

    # ---------------------------------------------------------------- constants and form arguments
    def ev_Constant(self, e, s):
        rep = repr(e)
        if rep in self.subst:
            return self.image_val(self.subst[rep], s)
        v = self.const(self.env(None).rand("const:" + rep, e.ufl_shape))
        return self._apply_perturbations(e, rep, v, s)

    def _monomials(self, side, physical):
        """Jets of all monomials y^e, |e| <= pdeg, y = X (reference) or x (physical) at the current point."""
        key = (side, physical)
        if key in self._mono:
            return self._mono[key]
        env = self.env(side)
        n = self.gdim if physical else self.tdim
        y = []
        for i in range(n):
            if physical:
                v = self.const(np.asarray(env.x[i]))
                if self.js.N >= 1:
                    for k in range(self.tdim):
                        v[self.js.unit(k)] = env.geo.J[i, k]
            else:
                v = self.js.var(i, env.X[i])
            y.append(v)
        exps = [m for d in range(env.pdeg + 1) for m in itertools.product(range(d + 1), repeat=n) if sum(m) == d]
        pows = [[self.const(np.asarray(1.0))] for _ in range(n)]
        for i in range(n):
            for _ in range(env.pdeg):
                pows[i].append(self.js.mul(pows[i][-1], y[i]))
        tab = []
        for m in exps:
            v = self.const(np.asarray(1.0))
            for i, p in enumerate(m):
                if p:
                    v = self.js.mul(v, pows[i][p])
            tab.append(v)
        out = (exps, np.stack(tab, axis=1))  # (M, nmono)
        self._mono[key] = out
        return out

    def refvalue(self, f, side, aliased=False):
        """Jet of the reference value of form argument f: shape (M,) + reference_value_shape."""
        env = self.env(side)
        if not aliased:
            f = self.alias.get(repr(f), f)
        el = f.ufl_element()
        rs = tuple(el.reference_value_shape)
        rep = repr(f)
        k = "rv:" + rep
        if k in env.fixed:
            return self.const(np.asarray(env.fixed[k]).reshape(rs))
        ncomp = int(np.prod(rs, dtype=int))
        is_const = el.embedded_superdegree == 0
        if env.physical_fields or (self.two_sided and self.continuous is not None and self.continuous(f)):
            # physical-space polynomial shared by both sides; '-' side differs by d(x) * g(x) (equal trace)
            exps, mono = self._monomials(side, True)
            C = self.envs["+"].rand("pp:" + rep, (ncomp, len(exps)))
            if env.degree_of is not None:
                degs = np.asarray(env.degree_of(f)).reshape(-1)
                C = C * np.array([[1.0 if sum(m) <= degs[c] else 0.0 for m in exps] for c in range(ncomp)])
            if is_const:
                C = C * np.array([1.0 if sum(m) == 0 else 0.0 for m in exps])
            v = np.tensordot(mono, C, axes=(1, 1))  # (M, ncomp)
            if side == "-" and not is_const and self.two_sided:
                ep = self.envs["+"]
                n = ep.geo.facet_normal(ep.facet)
                x_f = ep.geo.facet_vertices(ep.facet)[0]
                # signed distance d(x) = n . (x - x_f), as a jet in this side's X
                em = self.env(side)
                d = self.const(np.asarray(float(n @ (em.x - x_f))))
                if self.js.N >= 1:
                    for kk in range(self.tdim):
                        d[self.js.unit(kk)] = float(n @ em.geo.J[:, kk])
                G = self.envs["+"].rand("pg:" + rep, (ncomp, len(exps)))
                G = G * np.array([1.0 if sum(m) <= max(env.pdeg - 1, 0) else 0.0 for m in exps])
                g = np.tensordot(mono, G, axes=(1, 1))
                v = v + self.js.mul(d.reshape((self.M, 1)), g)
            return v.reshape((self.M,) + rs)
        exps, mono = self._monomials(side, False)
        skey = "rp:" + rep + (":" + str(side) if self.two_sided else "")
        C = env.rand(skey, (ncomp, len(exps)))
        if env.integer_coeffs:
            C = np.round(C * 4) + (np.abs(np.round(C * 4)) < 0.5) * 1.0
        if env.degree_of is not None:
            degs = np.asarray(env.degree_of(f)).reshape(-1)
            mask = np.array([[1.0 if sum(m) <= degs[c] else 0.0 for m in exps] for c in range(ncomp)])
            C = C * mask
        elif is_const:
            C = C * np.array([1.0 if sum(m) == 0 else 0.0 for m in exps])
        v = np.tensordot(mono, C, axes=(1, 1))
        return v.reshape((self.M,) + rs)

    def ev_ReferenceValue(self, e, s):
        f = e.ufl_operands[0]
        env = self.env(s)
        if env.mode == "atoms":
            return self.atom(e, s)
        return self.refvalue(f, s)

    def ev_FormArgument(self, e, s):
        e = self.alias.get(repr(e), e)
        rep = repr(e)
        if rep in self.subst:
            return self.image_val(self.subst[rep], s)
        env = self.env(s)
        if env.mode == "atoms":
            v = self.atom(e, s)
        else:
            r = self.refvalue(e, s, aliased=True)
            v = np.asarray(pushforward(e.ufl_element(), r, env.geo)).reshape((self.M,) + tuple(e.ufl_shape))
        return self._apply_perturbations(e, rep, v, s)

    def _apply_perturbations(self, e, rep, v, s):
        for ent in self.perturb.get(rep, ()):
            var, direction = ent[0], ent[1]
            comp = ent[2] if len(ent) > 2 else None
            if isinstance(direction, np.ndarray):
                d = self.const(direction)
            else:
                # the direction is a fixed field: evaluated without any perturbation
                if self._clean is None:
                    self._clean = Interp(self.envs, self.js.N, self.js.n - self.tdim)
                    self._clean.continuous = self.continuous
                d = self._clean.val(direction, s)
            tau = self.js.var(var, 0.0)
            inc = self.js.mul(tau.reshape((self.M,) + (1,) * (d.ndim - 1)), d)
            if comp is None:
                v = v + inc
            else:
                v = v.astype(np.result_type(v.dtype, inc.dtype))
                v[(slice(None),) + tuple(comp)] += inc
        for var, comp in self.term_perturb.get(rep, ()):
            E = np.zeros(e.ufl_shape)
            E[tuple(comp)] = 1.0
            tau = self.js.var(var, 0.0)
            v = v + tau.reshape((self.M,) + (1,) * len(e.ufl_shape)) * E
        return v

    # ---------------------------------------------------------------- free valuation (atoms)
    def atom_key(self, e, s):
        """(key string, side) of a terminal derivative tower; peels Restricted."""
        from ufl.classes import Grad, ReferenceGrad, ReferenceValue, Restricted

        parts = []
        o = e
        while True:
            if isinstance(o, Restricted):
                s = o.side()
                o = o.ufl_operands[0]
            elif isinstance(o, (Grad, ReferenceGrad, ReferenceValue)):
                parts.append(type(o).__name__)
                o = o.ufl_operands[0]
            else:
                break
        if not o._ufl_is_terminal_:
            raise Unsupported("atoms: derivative of a non-terminal (" + type(o).__name__ + ")")
        return o, parts, s

    def atom(self, e, s):
        o, parts, s = self.atom_key(e, s)
        env = self.env(s)
        rep = repr(o)
        if not parts and rep in self.subst:
            return self.image_val(self.subst[rep], s)
        side_dep = True
        if self.continuous is not None and not parts:
            side_dep = not self.continuous(o)
        key = "atom:" + "/".join(parts) + ":" + rep + (":" + str(s) if (self.two_sided and side_dep) else "")
        return self.const(self.envs[None].rand(key, e.ufl_shape))

    # ---------------------------------------------------------------- algebra
    def ev_Sum(self, e, s):
        a, b = e.ufl_operands
        return self.val(a, s) + self.val(b, s)

    def _letters(self, a, f, pre):
        return "".join(f((pre, k)) for k in range(len(a.ufl_shape))), "".join(f(c) for c in a.ufl_free_indices)

    def ev_Product(self, e, s):
        a, b = e.ufl_operands
        f = self.lab()
        sa, la = self._letters(a, f, "a")
        sb, lb = self._letters(b, f, "b")
        lo = "".join(f(c) for c in e.ufl_free_indices)
        return self.js.mul(self.val(a, s), self.val(b, s), f"{sa}{la},{sb}{lb}->{sa}{sb}{lo}")

    def recip(self, b):
        with np.errstate(all="ignore"):
            self.min_den = min(self.min_den, float(np.min(np.abs(b[0]))) if b[0].size else math.inf)
            return self.js.compose(b, jt.power_table(-1.0))

    def ev_Division(self, e, s):
        a, b = e.ufl_operands
        f = self.lab()
        sa, la = self._letters(a, f, "a")
        sb, lb = self._letters(b, f, "b")
        lo = "".join(f(c) for c in e.ufl_free_indices)
        return self.js.mul(self.val(a, s), self.recip(self.val(b, s)), f"{sa}{la},{sb}{lb}->{sa}{sb}{lo}")

    def ev_Power(self, e, s):
        a, b = e.ufl_operands
        va, vb = self.val(a, s), self.val(b, s)
        if self.env(s).cplx and not np.iscomplexobj(va):
            va = va.astype(complex)
        if vb.shape[1:] != () and vb.shape[1:] != va.shape[1:]:
            raise Unsupported("power with free indices in the exponent")
        with np.errstate(all="ignore"):
            if not np.any(vb[1:]):
                p = vb[0]
                if p.ndim:
                    raise Unsupported("array exponent")
                p = complex(p)
                p = p.real if p.imag == 0 else p
                if isinstance(p, float) and p == int(p) and abs(p) < 64:
                    p = int(p)
                return self.js.compose(va, jt.power_table(p))
            la = self.js.compose(va, jt.unary_table("Ln"))
            return self.js.compose(self.js.mul(vb, la), jt.unary_table("Exp"))

    def ev_Abs(self, e, s):
        a = self.val(e.ufl_operands[0], s)
        if np.iscomplexobj(a):
            if self.M == 1:
                return np.abs(a)
            sq = np.real(self.js.mul(a, np.conj(a)))
            return self.js.compose(sq, jt.unary_table("Sqrt"))
        self.min_den = min(self.min_den, float(np.min(np.abs(a[0]))) if (a[0].size and self.M > 1) else math.inf)
        return a * np.sign(a[0])

    def ev_Conj(self, e, s):
        return np.conj(self.val(e.ufl_operands[0], s))

    def ev_Real(self, e, s):
        return np.real(self.val(e.ufl_operands[0], s)) + 0.0

    def ev_Imag(self, e, s):
        return np.imag(self.val(e.ufl_operands[0], s)) + 0.0

    def ev_MathFunction(self, e, s):
        a = self.val(e.ufl_operands[0], s)
        if self.env(s).cplx and not np.iscomplexobj(a):
            a = a.astype(complex)  # complex mode: sqrt/ln/acos/asin leave the reals outside their real domain
        name = type(e).__name__
        if a[0].size:
            self.max_fn_arg = max(self.max_fn_arg, float(np.max(np.abs(a[0]))))
        with np.errstate(all="ignore"):
            return self.js.compose(a, jt.unary_table(name))

    def ev_Atan2(self, e, s):
        a, b = (self.val(o, s) for o in e.ufl_operands)
        if np.iscomplexobj(a) or np.iscomplexobj(b):
            raise Unsupported("complex atan2")
        if self.M == 1:
            return np.arctan2(a, b)
        return self.js.compose2(a, b, jt.atan2_table())

    def ev_BesselFunction(self, e, s):
        nu, x = e.ufl_operands
        nuv = self.val(nu, s)[0]
        nuv = float(np.real(nuv))
        kind = type(e).__name__[-1]
        a = self.val(x, s)
        if np.iscomplexobj(a) and np.any(np.imag(a)):
            raise Unsupported("complex bessel")
        a = np.real(a)
        if a[0].size:
            self.max_fn_arg = max(self.max_fn_arg, float(np.max(np.abs(a[0]))))
            if nuv != int(nuv):
                # fractional order: x**nu behaviour at the origin, not differentiable there (0 * inf in a chain rule)
                self.min_den = min(self.min_den, float(np.min(np.abs(a[0]))))
        with np.errstate(all="ignore"):
            return self.js.compose(a, jt.bessel_table(kind, nuv))

    # ---------------------------------------------------------------- conditions
    def _cmp(self, e, s):
        a, b = (self.val(o, s)[0] for o in e.ufl_operands)
        return a, b

    def _bool(self, v):
        return self.const(np.asarray(v, dtype=float))

    def _realpart(self, a, b):
        if np.iscomplexobj(a) or np.iscomplexobj(b):
            if np.any(np.abs(np.imag(a)) > 1e-12) or np.any(np.abs(np.imag(b)) > 1e-12):
                self.flags.add("complex_compare")
            return np.real(a), np.real(b)
        return a, b

    def _margin(self, a, b):
        d = np.abs(np.asarray(a) - np.asarray(b))
        if d.size and not np.all(np.isfinite(d)):
            # an undefined operand of a comparison: the case is outside the domain of the expression
            self.cond_margin = 0.0
            return
        if d.size:
            self.cond_margin = min(getattr(self, "cond_margin", math.inf), float(np.min(d)))

    def ev_LT(self, e, s):
        a, b = self._realpart(*self._cmp(e, s))
        self._margin(a, b)
        return self._bool(a < b)

    def ev_GT(self, e, s):
        a, b = self._realpart(*self._cmp(e, s))
        self._margin(a, b)
        return self._bool(a > b)

    def ev_LE(self, e, s):
        a, b = self._realpart(*self._cmp(e, s))
        self._margin(a, b)
        return self._bool(a <= b)

    def ev_GE(self, e, s):
        a, b = self._realpart(*self._cmp(e, s))
        self._margin(a, b)
        return self._bool(a >= b)

    def ev_EQ(self, e, s):
        a, b = self._cmp(e, s)
        return self._bool(a == b)

    def ev_NE(self, e, s):
        a, b = self._cmp(e, s)
        return self._bool(a != b)

    def ev_AndCondition(self, e, s):
        a, b = self._cmp(e, s)
        return self._bool((a != 0) & (b != 0))

    def ev_OrCondition(self, e, s):
        a, b = self._cmp(e, s)
        return self._bool((a != 0) | (b != 0))

    def ev_NotCondition(self, e, s):
        a = self.val(e.ufl_operands[0], s)[0]
        return self._bool(a == 0)

    def ev_Conditional(self, e, s):
        c, t, f = e.ufl_operands
        cv = self.val(c, s)[0]
        if cv.ndim:
            raise Unsupported("condition with free indices")
        return self.val(t, s) if cv != 0 else self.val(f, s)

    def ev_MaxValue(self, e, s):
        a, b = (self.val(o, s) for o in e.ufl_operands)
        ra, rb = self._realpart(a[0], b[0])
        self._margin(ra, rb)
        return a if ra > rb else b

    def ev_MinValue(self, e, s):
        a, b = (self.val(o, s) for o in e.ufl_operands)
        ra, rb = self._realpart(a[0], b[0])
        self._margin(ra, rb)
        return a if ra < rb else b

    # ---------------------------------------------------------------- indexing
    def ev_Indexed(self, e, s):
        A, mi = e.ufl_operands
        v = self.val(A, s)
        f = self.lab()
        sl = [slice(None)]
        letters = ""
        for i in mi:
            if isinstance(i, FixedIndex):
                sl.append(int(i))
            else:
                sl.append(slice(None))
                letters += f(i.count())
        v = v[tuple(sl)]
        letters += "".join(f(c) for c in A.ufl_free_indices)
        lo = "".join(f(c) for c in e.ufl_free_indices)
        return np.einsum(f"Z{letters}->Z{lo}", v)

    def ev_IndexSum(self, e, s):
        a, mi = e.ufl_operands
        (i,) = mi
        pos = a.ufl_free_indices.index(i.count())
        return np.sum(self.val(a, s), axis=1 + len(a.ufl_shape) + pos)

    def ev_ComponentTensor(self, e, s):
        a, mi = e.ufl_operands
        f = self.lab()
        sa = "".join(f(("a", k)) for k in range(len(a.ufl_shape)))
        li = "".join(f(c) for c in a.ufl_free_indices)
        lo = "".join(f(i.count()) for i in mi) + "".join(f(c) for c in e.ufl_free_indices)
        return np.einsum(f"Z{sa}{li}->Z{lo}{sa}" if sa else f"Z{li}->Z{lo}", self.val(a, s))

    def ev_ListTensor(self, e, s):
        vs = [self.val(o, s) for o in e.ufl_operands]
        return np.stack(vs, axis=1)

    def ev_Variable(self, e, s):
        v = self.val(e.ufl_operands[0], s)
        lab = e.ufl_operands[1].count()
        for var, comp in self.var_perturb.get(lab, ()):
            E = np.zeros(e.ufl_shape)
            E[tuple(comp)] = 1.0
            tau = self.js.var(var, 0.0)
            extra = v.ndim - 1 - len(e.ufl_shape)
            v = v + (tau.reshape((self.M,) + (1,) * len(e.ufl_shape)) * E).reshape((self.M,) + tuple(e.ufl_shape) + (1,) * extra)
        return v

    def ev_Restricted(self, e, s):
        if self.env(e.side()).mode == "atoms":
            o = e.ufl_operands[0]
            from ufl.classes import Grad, ReferenceGrad, ReferenceValue

            if o._ufl_is_terminal_ or isinstance(o, (Grad, ReferenceGrad, ReferenceValue)):
                try:
                    return self._restricted_atom(e)
                except Unsupported:
                    pass
        return self.val(e.ufl_operands[0], e.side())

    def _restricted_atom(self, e):
        o = e.ufl_operands[0]
        return self.val(o, e.side())

    def ev_CellAvg(self, e, s):
        raise Unsupported("CellAvg")

    def ev_FacetAvg(self, e, s):
        raise Unsupported("FacetAvg")

    # ---------------------------------------------------------------- derivatives
    def _rgrad(self, f, s):
        a = self.val(f, s)
        rk = len(f.ufl_shape)
        return np.stack([self.js.diff(a, k) for k in range(self.tdim)], axis=1 + rk)

    def _grad(self, f, s):
        rk = len(f.ufl_shape)
        parts = self._rgrad(f, s)
        K = self.env(s).geo.K
        out = np.tensordot(parts, K, axes=([1 + rk], [0]))
        return np.moveaxis(out, -1, 1 + rk)

    def _is_atoms(self, s):
        return self.env(s).mode == "atoms"

    def ev_ReferenceGrad(self, e, s):
        f = e.ufl_operands[0]
        if self._is_atoms(s):
            from ufl.classes import SpatialCoordinate

            o, parts, s2 = self.atom_key(e, s)
            if isinstance(o, SpatialCoordinate) and all(p == "ReferenceGrad" for p in parts):
                if len(parts) == 1:
                    return self.const(self.env(s2).geo.J)
                return self.const(np.zeros(e.ufl_shape))
            return self.atom(e, s)
        return self._rgrad(f, s)

    def ev_Grad(self, e, s):
        f = e.ufl_operands[0]
        if self._is_atoms(s):
            from ufl.classes import GeometricQuantity

            o, parts, s2 = self.atom_key(e, s)
            if isinstance(o, GeometricQuantity):
                raise Unsupported("atoms: grad of geometric quantity")
            return self.atom(e, s)
        return self._grad(f, s)

    def ev_Div(self, e, s):
        f = e.ufl_operands[0]
        g = self._grad(f, s)
        rk = len(f.ufl_shape)
        return np.trace(g, axis1=rk, axis2=rk + 1)

    def ev_ReferenceDiv(self, e, s):
        f = e.ufl_operands[0]
        g = self._rgrad(f, s)
        rk = len(f.ufl_shape)
        return np.trace(g, axis1=rk, axis2=rk + 1)

    def ev_NablaGrad(self, e, s):
        f = e.ufl_operands[0]
        g = self._grad(f, s)
        return np.moveaxis(g, 1 + len(f.ufl_shape), 1)

    def ev_NablaDiv(self, e, s):
        f = e.ufl_operands[0]
        g = self._grad(f, s)
        rk = len(f.ufl_shape)
        return np.trace(g, axis1=1, axis2=rk + 1)

    def _curl_from(self, f, g):
        sh = f.ufl_shape
        if sh == ():
            return np.stack([g[:, 1], -g[:, 0]], axis=1)
        if sh == (2,):
            return g[:, 1, 0] - g[:, 0, 1]
        if sh == (3,):
            return np.stack([g[:, 2, 1] - g[:, 1, 2], g[:, 0, 2] - g[:, 2, 0], g[:, 1, 0] - g[:, 0, 1]], axis=1)
        raise Unsupported("curl shape")

    def ev_Curl(self, e, s):
        f = e.ufl_operands[0]
        return self._curl_from(f, self._grad(f, s))

    def ev_ReferenceCurl(self, e, s):
        f = e.ufl_operands[0]
        return self._curl_from(f, self._rgrad(f, s))

    def ev_Derivative(self, e, s):
        raise Unsupported(type(e).__name__)

    def ev_BaseFormOperator(self, e, s):
        raise Unsupported(type(e).__name__)

    # ---------------------------------------------------------------- compound tensor algebra
    def _nofree(self, *ops):
        for o in ops:
            if o.ufl_free_indices:
                raise Unsupported("compound operator with free indices")

    def ev_Transposed(self, e, s):
        return np.swapaxes(self.val(e.ufl_operands[0], s), 1, 2)

    def ev_Dot(self, e, s):
        a, b = e.ufl_operands
        f = self.lab()
        ra, rb = len(a.ufl_shape), len(b.ufl_shape)
        if ra == 0 or rb == 0:
            sa, la = self._letters(a, f, "a")
            sb, lb = self._letters(b, f, "b")
            lo = "".join(f(x) for x in e.ufl_free_indices)
            return self.js.mul(self.val(a, s), self.val(b, s), f"{sa}{la},{sb}{lb}->{sa}{sb}{lo}")
        sa = "".join(f(("a", k)) for k in range(ra - 1))
        sb = "".join(f(("b", k)) for k in range(rb - 1))
        c = f("c")
        la = "".join(f(x) for x in a.ufl_free_indices)
        lb = "".join(f(x) for x in b.ufl_free_indices)
        lo = "".join(f(x) for x in e.ufl_free_indices)
        return self.js.mul(self.val(a, s), self.val(b, s), f"{sa}{c}{la},{c}{sb}{lb}->{sa}{sb}{lo}")

    def ev_Inner(self, e, s):
        a, b = e.ufl_operands
        f = self.lab()
        sa = "".join(f(("a", k)) for k in range(len(a.ufl_shape)))
        la = "".join(f(x) for x in a.ufl_free_indices)
        lb = "".join(f(x) for x in b.ufl_free_indices)
        lo = "".join(f(x) for x in e.ufl_free_indices)
        return self.js.mul(self.val(a, s), np.conj(self.val(b, s)), f"{sa}{la},{sa}{lb}->{lo}")

    def ev_Outer(self, e, s):
        a, b = e.ufl_operands
        f = self.lab()
        sa, la = self._letters(a, f, "a")
        sb, lb = self._letters(b, f, "b")
        lo = "".join(f(x) for x in e.ufl_free_indices)
        return self.js.mul(np.conj(self.val(a, s)), self.val(b, s), f"{sa}{la},{sb}{lb}->{sa}{sb}{lo}")

    def ev_Perp(self, e, s):
        v = self.val(e.ufl_operands[0], s)
        return np.stack([-v[:, 1], v[:, 0]], axis=1)

    def ev_Cross(self, e, s):
        a, b = e.ufl_operands
        f = self.lab()
        i, j = f("i"), f("j")
        la = "".join(f(x) for x in a.ufl_free_indices)
        lb = "".join(f(x) for x in b.ufl_free_indices)
        lo = "".join(f(x) for x in e.ufl_free_indices)
        # all products a_i b_j (free indices of the operands are trailing axes), then the antisymmetric combinations
        P = self.js.mul(self.val(a, s), self.val(b, s), f"{i}{la},{j}{lb}->{i}{j}{lo}")
        return np.stack([P[:, 1, 2] - P[:, 2, 1], P[:, 2, 0] - P[:, 0, 2], P[:, 0, 1] - P[:, 1, 0]], axis=1)

    def ev_Trace(self, e, s):
        return np.trace(self.val(e.ufl_operands[0], s), axis1=1, axis2=2)

    def ev_Sym(self, e, s):
        a = self.val(e.ufl_operands[0], s)
        return 0.5 * (a + np.swapaxes(a, 1, 2))

    def ev_Skew(self, e, s):
        a = self.val(e.ufl_operands[0], s)
        return 0.5 * (a - np.swapaxes(a, 1, 2))

    def ev_Deviatoric(self, e, s):
        A = e.ufl_operands[0]
        self._nofree(A)
        a = self.val(A, s)
        n = A.ufl_shape[0]
        tr = np.trace(a, axis1=1, axis2=2)
        return a - tr[:, None, None] * np.eye(n)[None] / n

    def jet_det(self, A):
        n = A.shape[1]
        if A.ndim == 1:
            return A
        tot = None
        for perm in itertools.permutations(range(n)):
            sign = round(float(np.linalg.det(np.eye(n)[list(perm)])))
            term = None
            for i, j in enumerate(perm):
                term = A[:, i, j] if term is None else self.js.mul(term, A[:, i, j])
            term = sign * term
            tot = term if tot is None else tot + term
        return tot

    def jet_matmul(self, A, B):
        return self.js.mul(A, B, "ij,jk->ik")

    def jet_inv(self, A):
        n = A.shape[1]
        with np.errstate(all="ignore"):
            c = np.linalg.cond(A[0]) if np.all(np.isfinite(A[0])) else math.inf
        self.max_cond = max(getattr(self, "max_cond", 0.0), float(c))
        B0 = np.linalg.inv(A[0])
        Y = self.const(B0)
        eye = self.const(np.eye(n))
        for _ in range(self.js.N):
            Y = Y + self.jet_matmul(Y, eye - self.jet_matmul(A, Y))
        return Y

    def ev_Determinant(self, e, s):
        A = e.ufl_operands[0]
        self._nofree(A)
        a = self.val(A, s)
        if a.ndim == 1:
            return a
        # the size of the terms an expanded determinant adds up (Hadamard bound): det(outer(w, w)) with |w| ~ 30 is the
        # difference of terms of size 1e9
        self.max_inter = max(self.max_inter, float(np.prod(np.linalg.norm(a[0], axis=-1))))
        if self.M == 1:
            return np.linalg.det(a[0])[None]
        return self.jet_det(a)

    def ev_Inverse(self, e, s):
        A = e.ufl_operands[0]
        self._nofree(A)
        a = self.val(A, s)
        if a.ndim == 1:
            return self.recip(a)
        try:
            return self.jet_inv(a)
        except np.linalg.LinAlgError:
            raise IllConditioned("singular matrix")

    def ev_Cofactor(self, e, s):
        A = e.ufl_operands[0]
        self._nofree(A)
        a = self.val(A, s)
        self.max_inter = max(self.max_inter, float(np.prod(np.linalg.norm(a[0], axis=-1))))
        try:
            inv = self.jet_inv(a)
        except np.linalg.LinAlgError:
            raise IllConditioned("singular matrix")
        d = self.jet_det(a)
        return self.js.mul(d.reshape((self.M, 1, 1)), np.swapaxes(inv, 1, 2))

    def ev_ExprList(self, e, s):
        raise Unsupported("ExprList")

    def ev_ExprMapping(self, e, s):
        raise Unsupported("ExprMapping")


# ------------------------------------------------------------------------------------------ helpers
def derivative_depth(e, _memo=None):
    """Max number of spatial derivative operators on a root-to-leaf path (jet order needed for coefficient 0)."""
    memo = {} if _memo is None else _memo
    stack = [(e, False)]
    while stack:
        n, done = stack.pop()
        if id(n) in memo:
            continue
        if n._ufl_is_terminal_:
            memo[id(n)] = 0
            continue
        if not done:
            stack.append((n, True))
            for o in n.ufl_operands:
                if id(o) not in memo:
                    stack.append((o, False))
        else:
            d = max((memo[id(o)] for o in n.ufl_operands), default=0)
            if type(n).__name__ in ("Grad", "ReferenceGrad", "Div", "ReferenceDiv", "Curl", "ReferenceCurl", "NablaGrad", "NablaDiv"):
                d += 1
            memo[id(n)] = d
    return memo[id(e)]


def is_acyclic(e, limit=200000):
    """Iterative DFS cycle check by object identity."""
    seen = set()
    onpath = {id(e)}
    stack = [(e, iter(e.ufl_operands))]
    n = 0
    while stack:
        node, it = stack[-1]
        for ch in it:
            n += 1
            if n > limit:
                return True
            if id(ch) in onpath:
                return False
            if id(ch) in seen:
                continue
            seen.add(id(ch))
            onpath.add(id(ch))
            stack.append((ch, iter(ch.ufl_operands)))
            break
        else:
            onpath.discard(id(node))
            stack.pop()
    return True


def close(a, b, rtol=1e-8, atol=1e-10):
    a = np.asarray(a)
    b = np.asarray(b)
    if a.shape != b.shape:
        return False
    if not (np.all(np.isfinite(a)) and np.all(np.isfinite(b))):
        return False
    scale = max(1.0, float(np.max(np.abs(a))) if a.size else 1.0, float(np.max(np.abs(b))) if b.size else 1.0)
    return bool(np.all(np.abs(a - b) <= atol * scale + rtol * scale))

#!/bin/bash
# Offline setup: third-party packages for the harness go to /verif/.deps (never into /venv or /repo).
set -e
HERE="$(cd "$(dirname "${BASH_SOURCE[0]}")" && pwd)"
mkdir -p "$HERE/.deps"
if [ ! -f "$HERE/.deps/.ok" ]; then
  PIP_NO_INDEX=1 /venv/bin/python -m pip install --quiet --no-index --no-deps --find-links /opt/veriftools/wheels \
     --target "$HERE/.deps" --upgrade hypothesis sortedcontainers attrs scipy sympy mpmath atheris
  touch "$HERE/.deps/.ok"
fi
echo "setup ok"

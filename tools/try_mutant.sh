#!/bin/bash
# usage: tools/try_mutant.sh <patch.diff> <PID> [extra check args]   -- applies to /repo, runs the check, reverts
set -u
PATCH="$1"; shift
cd /repo || exit 2
if ! git diff --quiet; then echo "repo dirty"; exit 2; fi
git apply "$PATCH" || { echo "patch does not apply"; exit 2; }
cd /verif
./check "$@" --no-evidence 2>&1 | tail -8
rc=${PIPESTATUS[0]}
git -C /repo checkout -- .
echo "exit=$rc"

#!/venv/bin/python
"""Coverage-guided driving of a property's check_case with atheris + hypothesis.fuzz_one_input.

  tools/fuzz.py CNN [-runs=N] [-max_total_time=S] [corpus dir]      (run from /verif; deps from /verif/.deps)

libFuzzer mutates the byte string that Hypothesis turns into a case of the property's strategy; coverage is measured
over the ufl sources only.  A Violation stops the campaign: the case is written to out/violations/CNN-fuzz-<hash>.json
and must be confirmed with   ./check CNN --replay <file>   before it is believed.  Discards and unsupported cases are
ordinary (uninteresting) inputs.  This is an additional exploration mode; it is not registered in MANIFEST.json because a
libFuzzer campaign is not a reproducible function of VERIF_SEED.
"""
import importlib
import json
import os
import sys

ROOT = os.path.dirname(os.path.dirname(os.path.abspath(__file__)))
REPO = os.environ.get("UFL_REPO", "/repo")
for p in (os.path.join(ROOT, ".deps"), ROOT, REPO):
    if p not in sys.path:
        sys.path.insert(0, p)
os.environ.setdefault("OMP_NUM_THREADS", "1")
os.environ.setdefault("OPENBLAS_NUM_THREADS", "1")
sys.setrecursionlimit(20000)

import atheris  # noqa: E402

pid = sys.argv[1].upper()
argv = [sys.argv[0]] + sys.argv[2:]

with atheris.instrument_imports(include=["ufl"]):
    import ufl  # noqa: F401
    import ufl.algorithms  # noqa: F401

from hypothesis import HealthCheck, given, settings  # noqa: E402

from vf.common import CaseTimeout, Discard, Violation, jdump, khash, tojson  # noqa: E402

module = importlib.import_module("vf.props." + pid.lower())
if hasattr(module, "warmup"):
    module.warmup()
stats = {"cases": 0, "checked": 0, "discards": 0}


@settings(database=None, deadline=None, suppress_health_check=list(HealthCheck))
@given(module.strategy("thorough"))
def test(case):
    case = tojson(case)
    stats["cases"] += 1
    try:
        module.check_case(case)
        stats["checked"] += 1
    except Discard:
        stats["discards"] += 1
    except Violation as v:
        out = os.path.join(ROOT, "out", "violations")
        os.makedirs(out, exist_ok=True)
        path = os.path.join(out, f"{pid}-fuzz-{khash(case)}.json")
        with open(path, "w") as f:
            json.dump({"property": pid, "kind": str(v.detail.get("kind", "")), "msg": v.msg[:2000], "case": case}, f, indent=1)
        print(f"\nfuzz: violation candidate ({v.msg[:200]})\n      confirm with: ./check {pid} --replay {path}", flush=True)
        raise


def one_input(data):
    try:
        test.hypothesis.fuzz_one_input(data)
    except Violation:
        raise
    except (CaseTimeout, RecursionError):
        pass


atheris.Setup(argv, one_input)
try:
    atheris.Fuzz()
finally:
    print("fuzz stats:", jdump(stats), flush=True)

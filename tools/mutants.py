#!/venv/bin/python
"""Run checks against the seeded changes, each in its own scratch worktree of /repo (never touches /repo itself).

  tools/mutants.py [--jobs N] [--tier quick] [--only C05-m1,C09] [--prop C05]   -> seeded/RESULTS.json (merged)

For seeded/<id>/ (patch.diff, meta.json with "property"): git worktree add /tmp/mut-<id>, git apply, run
  UFL_REPO=/tmp/mut-<id> ./check <property> --tier quick --no-evidence
record exit code + first VIOLATION/violation lines, remove the worktree.  `--prop P` runs check P against every
selected mutant instead of the mutant's own property (cross-detection).
"""
import argparse
import concurrent.futures as cf
import json
import os
import subprocess
import sys
import time

ROOT = os.path.dirname(os.path.dirname(os.path.abspath(__file__)))


def sh(cmd, **kw):
    return subprocess.run(cmd, shell=True, capture_output=True, text=True, **kw)


def run_one(mid, prop, tier, seed):
    d = os.path.join(ROOT, "seeded", mid)
    wt = f"/tmp/mut-{mid}-{prop}-{os.getpid()}"
    sh(f"git -C /repo worktree remove --force {wt}")
    r = sh(f"git -C /repo worktree add -q --detach {wt} HEAD")
    if r.returncode:
        return mid, prop, {"status": "worktree-failed", "msg": r.stderr[-300:]}
    try:
        r = sh(f"git -C {wt} apply {d}/patch.diff")
        if r.returncode:
            return mid, prop, {"status": "patch-does-not-apply", "msg": r.stderr[-300:]}
        t0 = time.time()
        env = dict(os.environ, UFL_REPO=wt, VERIF_SEED=str(seed))
        r = sh(f"cd {ROOT} && ./check {prop} --tier {tier} --no-evidence", env=env)
        lines = [ln for ln in r.stdout.splitlines() if ln.startswith(("violation", "VIOLATION", "HARNESS"))]
        status = {0: "missed", 1: "caught", 2: "harness-error"}.get(r.returncode, f"exit{r.returncode}")
        return mid, prop, {"status": status, "wall_s": round(time.time() - t0, 1), "tier": tier, "seed": seed,
                           "lines": [ln[:300] for ln in lines[:4]], "tail": r.stdout[-400:] if status != "caught" else ""}
    finally:
        sh(f"git -C /repo worktree remove --force {wt}")


def main():
    ap = argparse.ArgumentParser()
    ap.add_argument("--jobs", type=int, default=2)
    ap.add_argument("--tier", default="quick")
    ap.add_argument("--seed", type=int, default=1)
    ap.add_argument("--only", default="")
    ap.add_argument("--prop", default="")
    a = ap.parse_args()
    only = [x for x in a.only.split(",") if x]
    mids = []
    for mid in sorted(os.listdir(os.path.join(ROOT, "seeded"))):
        d = os.path.join(ROOT, "seeded", mid)
        if not os.path.isfile(os.path.join(d, "patch.diff")):
            continue
        if only and not any(mid == o or mid.startswith(o + "-") for o in only):
            continue
        with open(os.path.join(d, "meta.json")) as f:
            meta = json.load(f)
        if meta.get("obsolete"):
            print(f"{mid}: obsolete ({meta['obsolete'][:80]}...)")
            continue
        prop = a.prop or meta["property"]
        if not os.path.exists(os.path.join(ROOT, "vf", "props", prop.lower() + ".py")):
            print(f"{mid}: no check for {prop} yet")
            continue
        mids.append((mid, prop))
    respath = os.path.join(ROOT, "seeded", "RESULTS.json")
    results = json.load(open(respath)) if os.path.exists(respath) else {}
    with cf.ThreadPoolExecutor(a.jobs) as ex:
        futs = [ex.submit(run_one, mid, prop, a.tier, a.seed) for mid, prop in mids]
        for fu in cf.as_completed(futs):
            mid, prop, res = fu.result()
            results.setdefault(mid, {})[prop] = res
            print(f"{mid} vs {prop}: {res['status']} {res.get('wall_s', '')}s {' | '.join(res.get('lines', [])[:1])[:200]}", flush=True)
            with open(respath, "w") as f:
                json.dump(results, f, indent=1, sort_keys=True)
    return 0


if __name__ == "__main__":
    sys.exit(main())

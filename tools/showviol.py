import json, sys
for f in sys.argv[1:]:
    d = json.load(open(f)); c = d['case']
    print(d['kind'], d['msg'][:300])
    for k, v in c.items():
        if k == 'world':
            print('  world', v['cell'], v['gdim'], {n: f.get('elem') for n, f in v['fields'].items() if f.get('elem')})
        else:
            print(' ', k, json.dumps(v))

#!/bin/bash
# usage: tools/confirm_seed.sh <dir with patch.diff demo.py notes.md> <PID> <name>
# Confirms in a scratch worktree of /repo HEAD: tests pass with the patch, demo fails with / passes without.
# On success copies the seed to /verif/seeded/<PID>-<name>/ and writes meta.json (to be completed by hand).
SRC="$1"; PID="$2"; NAME="$3"
WT=/tmp/confirm-$PID-$NAME
git -C /repo worktree add -q --detach "$WT" HEAD || exit 2
cd "$WT"
res_clean=$(PYTHONPATH="$WT" timeout 900 /venv/bin/python "$SRC/demo.py" >/tmp/confirm-$PID-$NAME.clean.log 2>&1; echo $?)
if ! git apply "$SRC/patch.diff"; then echo "$PID-$NAME: PATCH DOES NOT APPLY"; cd /; git -C /repo worktree remove --force "$WT"; exit 1; fi
res_mut=$(PYTHONPATH="$WT" timeout 900 /venv/bin/python "$SRC/demo.py" >/tmp/confirm-$PID-$NAME.mut.log 2>&1; echo $?)
tests=$(PYTHONPATH="$WT" timeout 1800 /venv/bin/python -m pytest -q -p no:cacheprovider test/ 2>&1 | tail -1)
cd /
git -C /repo worktree remove --force "$WT"
echo "$PID-$NAME: demo clean exit=$res_clean, demo mutated exit=$res_mut, tests with patch: $tests"
if [ "$res_clean" = "0" ] && [ "$res_mut" != "0" ] && echo "$tests" | grep -q "977 passed"; then
  D=/verif/seeded/$PID-$NAME; mkdir -p "$D"; cp "$SRC/patch.diff" "$SRC/demo.py" "$D/"; cp "$SRC/notes.md" "$D/notes.md" 2>/dev/null
  echo "{\"id\": \"$PID-$NAME\", \"property\": \"$PID\", \"confirmed\": \"demo exit $res_clean without patch, exit $res_mut with patch; $tests\"}" > "$D/meta.json"
  echo "  -> kept in $D"
else
  echo "  -> NOT confirmed"
fi

#!/bin/bash
# usage: tools/run_all.sh <tier> <seed> [--no-evidence]   -- every property once; prints the summary lines
cd "$(dirname "$0")/.."
TIER=${1:-quick}; SEED=${2:-1}; shift 2
rc=0
for p in C01 C02 C03 C04 C05 C06 C07 C08 C09 C10 C11 C12 C13 C14 C15 C16 C17 C18 C19 C20 C21 C22 C23 C24 C25 C26 C27 C28 C29; do
  VERIF_SEED=$SEED ./check $p --tier $TIER "$@" 2>&1 | grep -E "tier=|VIOLATION|HARNESS|violation\[|KNOWN" | cut -c1-300
  r=${PIPESTATUS[0]}; [ "$r" != 0 ] && { echo "  -> $p exit $r"; rc=1; }
done
exit $rc

#!/venv/bin/python
"""Regenerate MANIFEST.json from the table below (run from /verif)."""
import json
import os

HERE = os.path.dirname(os.path.dirname(os.path.abspath(__file__)))

# id -> (technique, level text, level note, design ref)
CHECKS = {
    "C25": (
        "exhaustive enumeration of all pairs/triples against a reference order table",
        "All 167 spaces (12 predefined + directional orders in {0,1,2,3,inf}^{1..3}): every ordered pair and every triple is "
        "evaluated and compared with an independent subspace table; the space is finite so the run is complete.",
        "Trusts the harness' own subspace table (DESIGN 4/C25); directional spaces of different length are not compared.",
        "4/C25",
    ),
    "C26": (
        "exhaustive enumeration of all cells with Euler/incidence/ordering oracles",
        "All named cells, simplex/hypercube constructors and tensor-product cells of dimension <= 3: f-vectors against an "
        "own geometry table, Euler-Poincare, recursive sub-entity consistency, ridge incidence, strict total order on all "
        "pairs and triples. Finite space, enumerated completely.",
        "Trusts the harness' f-vector/facet tables; intermediate-dimension counts of TensorProductCell are not implemented "
        "in ufl (NotImplementedError) and are skipped.",
        "4/C26",
    ),
}

CHECKS.update({
    "C02": (
        "generated integrands; oracle = tau-coefficient of Taylor-mode jets of F(w + tau v) from an independent interpreter",
        "Hypothesis-generated integrands/differentiation variables/directions (first and second derivatives, components, "
        "tuples, coefficient_derivatives, several derivative nodes in one DAG); expand_derivatives(derivative(...)) is "
        "evaluated on random affine cells and compared with the directional derivative computed by truncated Taylor "
        "arithmetic that shares no rule with apply_derivatives.",
        "Trusts the reference interpreter (numpy/scipy, sympy-generated derivative tables) and its push-forward table; "
        "real smooth data; ill-conditioned points discarded; ufl exceptions satisfy the statement.",
        "4/C02",
    ),
    "C03": (
        "generated expressions; oracle = Taylor-mode jets of the unexpanded expression vs the expanded one",
        "Hypothesis-generated nestings of grad/div/curl/nabla_grad/nabla_div/.dx over the full grammar on "
        "interval/triangle/tetrahedron incl. immersed manifolds and Piola-mapped fields; value of the unexpanded "
        "expression by jets == value after apply_algebra_lowering+apply_derivatives, plus the structural predicate "
        "that derivatives only act on terminals.",
        "Trusts the reference interpreter; Grad := ReferenceGrad.K (pseudo-inverse) on affine cells; an exception in "
        "the generated (must-succeed) grammar is reported as a violation.",
        "4/C03",
    ),
})

CHECKS.update({
    "C04": (
        "generated expressions with variables; oracle = jets with the variable node's value perturbed",
        "Hypothesis-generated expressions over 1-3 (nested, tensor-valued, repeatedly used) variables; diff w.r.t. a "
        "variable or coefficient, optionally repeated; every component of expand_derivatives(diff(f, v)) is compared "
        "with the perturbation coefficient computed by Taylor arithmetic with only the variable's value perturbed; "
        "shape f.shape + v.shape and distinctness of variables are checked.",
        "Trusts the reference interpreter; real smooth data; exceptions in the generated grammar are violations.",
        "4/C04",
    ),
    "C06": (
        "operator-stratified generated operands; oracle = numpy linear algebra semantics vs lowered index notation",
        "Every compound operator and every helper of ufl.compound_expressions is drawn as focus with operands of all "
        "admissible shapes (1-4, rectangular, rank 3, free-index operands, nested compounds, list tensors with zeros), "
        "real and complex; the lowered expression's value is compared with numpy semantics (det/inv/pinv/einsum with "
        "the documented conjugation); compound differential operators are compared through jets of the unlowered node.",
        "Trusts numpy.linalg and the interpreter's compound semantics; matrices with condition > 1e4 discarded.",
        "4/C06",
    ),
})

CHECKS.update({
    "C07": (
        "complete grid of quantity x cell x gdim x facet with random vertices; oracle = geometry computed directly from the vertices",
        "Every geometric quantity handled by the lowering on every admissible (cell, gdim, facet, ridge, preserve set) "
        "grid point, each with random non-degenerate vertex sets; the lowered expression evaluated with Jacobian / "
        "reference-cell terminals must equal the quantity computed from vertex coordinates; also all ordered pairs q1/q2 "
        "of the ten scalar quantities lowered in one expression.",
        "Trusts vf/refcell.py (Gram determinants, circumcentre solve, numpy pinv) and the FEniCS reference-cell "
        "numbering; CellNormal by validity predicate.",
        "4/C07",
    ),
    "C08": (
        "generated element compositions; oracle = own push-forward table applied to random reference values",
        "Recursive Hypothesis strategy over all pull-back kinds, block-shaped (row-wise) reference values, nested "
        "mixed and heterogeneous symmetric elements on flat and immersed cells; apply_function_pullbacks(f) evaluated "
        "with ReferenceValue(f) := r must equal the table's push-forward of r, with FunctionSpace.value_shape; "
        "grad(f) is checked through jets.",
        "Trusts the push-forward table of DESIGN 7.2.",
        "4/C08",
    ),
})

CHECKS.update({
    "C05": (
        "generated programs; oracle = independent numpy model of the recipe (L1) vs interpreter value of the built expression (L2)",
        "Hypothesis-generated programs over the public operator language (python and ufl literals, zeros with free "
        "indices, all indexing forms, list/component tensors incl. the operand patterns constructor shortcuts test "
        "for, conditionals, math functions, tensor algebra, restrictions, real and complex data); the value, shape and "
        "free indices computed from the recipe by a model that never sees ufl nodes must equal those of the built "
        "expression; DAG invariants of every node.",
        "Trusts vf/model.py (textbook semantics) and the interpreter's terminal values; a constructor exception on "
        "a program the model accepts is reported as a violation.",
        "4/C05",
    ),
})

CHECKS.update({
    "C10": (
        "generated index-notation programs with re-used index objects; oracle = interpreter value/free indices of input vs output of each pass",
        "Hypothesis-generated index-notation programs over only four index names (the same Index object in sibling, "
        "nested and capturing scopes -- a dedicated production builds component tensors whose body binds the index they "
        "are indexed with), variables used with several components, zeros with free indices, nested list/component "
        "tensors, optional derivatives; remove_component_tensors, renumber_indices (expression and form), expand_indices "
        "and their composition must keep shape, free indices and the value on random cells; expand_indices must leave "
        "no Index.",
        "Trusts the reference interpreter (free indices are array axes); renumber_indices is compared up to the renaming "
        "of free indices it performs by design; an exception raised by a pass on a generated program is a violation.",
        "4/C10",
    ),
})

CHECKS.update({
    "C01": (
        "generated forms x option sets; oracle = interpreter value of original (physical frame) x own scale factor vs preprocessed integrands (reference frame) per subdomain",
        "Hypothesis-generated forms (1-3 integrals over dx/ds/dS, subdomain ids, metadata, 0-2 arguments, element zoo incl. "
        "all Piola kinds and heterogeneous symmetric elements, integrands multilinear by construction with factors from the "
        "full grammar, explicit Jacobian products) with one drawn option set of compute_form_data each; on random affine "
        "cells / facets / facet pairs (incl. immersed manifolds) the sum of preprocessed integrands per subdomain must "
        "equal scale x sum of the applicable original integrands, the scale computed from the vertices.",
        "Trusts the reference interpreter, the push-forward table and reference-cell tables of DESIGN 7; exceptions of "
        "compute_form_data satisfy the statement and are counted (floor on processed cases).",
        "4/C01",
    ),
    "C09": (
        "generated index-notation products with re-used index objects and power towers + pipeline integrands; oracle = value/free indices before vs after each cancellation pass in a consistent free valuation",
        "Hypothesis-generated products of J, K, Identity, indexed coefficients and scalar power towers over a small pool of "
        "Index objects (nested sums, free/bound re-use, fixed indices) on flat and immersed cells, plus the integrands "
        "that reach cancel_jacobian_products inside compute_form_data for generated forms; JacobianCanceller, "
        "IdentityEliminator, ReciprocalCanceller and their composition must keep shape, free indices and value with "
        "K = pinv(J) and detJ of either sign.",
        "Trusts the interpreter; cases whose original value is non-finite are discarded.",
        "4/C09",
    ),
})

CHECKS.update({
    "C14": (
        "generated multilinear-by-construction integrands and single-edit broken variants; oracle = numerical (anti)linearity of the integrand in each argument, computed by the interpreter with explicit argument coefficients",
        "Hypothesis-generated forms with 1-3 arguments (real and complex mode): integrands multilinear by construction and "
        "variants broken by one edit (affine addend, non-zero argument-free list-tensor component, squares, nonlinear "
        "functions, argument-dependent conditions/denominators, mismatching branches or argument sets, missing/spurious "
        "conjugation, also of the third argument or of one term of a sum). Whenever compute_form_data's arity check accepts, F(alpha u + beta u') = alpha F(u) + beta F(u') "
        "(conjugated for the test function in complex mode) must hold numerically for every argument; rejections of "
        "programs that are multilinear by construction are counted (a floor on accepted cases guards against vacuity).",
        "Trusts the interpreter; only ArityMismatch counts as a rejection.",
        "4/C14",
    ),
    "C17": (
        "generated interior-facet integrands with restrictions at arbitrary depth; oracle = own classification of the input DAG (must raise / must accept) + two-sided interpreter value before vs after + structural predicate on the result",
        "Hypothesis-generated interior-facet integrands over H1/DG/Piola/Real coefficients, arguments, constants, x, n, "
        "cell and facet geometry, gradients, variables, with restrictions wrapped at the root or drawn at arbitrary depth "
        "(incl. invalid programs); with default restrictions checked and with pure propagation, called directly or through "
        "compute_form_data with the measures dS, dS_h, dS_v. Nested restrictions and "
        "unrestricted side-dependent terminals must raise; otherwise the value on a pair of cells sharing a facet (H1 "
        "traces equal, n- = -n+) must be unchanged and every side-dependent terminal must be wrapped exactly once.",
        "Trusts the two-sided environment of DESIGN 2.3 and the harness' list of side-dependent terminal kinds; known "
        "finding F26 (lowered cell geometry takes the default side) is identified by the check and diverted.",
        "4/C17",
    ),
})

CHECKS.update({
    "C21": (
        "generated expressions and mappings; oracle = interpreter value of e in an environment where each mapped terminal (and its derivatives, via jets) takes its image's value vs value of replace(e, m)",
        "Hypothesis-generated expressions/forms (full grammar incl. derivatives, variables, restrictions) and mappings of "
        "1-3 coefficients/constants/arguments/x to terminals or generated expressions (swaps and self-referential images "
        "included): the value of replace(e, m) must equal the value of e with simultaneously substituted terminals; "
        "shape-changing mappings must raise; mappings that hit nothing must return an equal expression; the same recipe "
        "rebuilt with a mapped coefficient exchanged for an ExternalOperator / Interpolate key (image as drawn or zero) "
        "must lose the operator and have the substituted value.",
        "Trusts the interpreter's substitution environment (images evaluated without substitution).",
        "4/C21",
    ),
})

CHECKS.update({
    "C24": (
        "generated expressions and terminal mappings (numbers, nested tuples, callables with derivatives); oracle = interpreter value at the same physical point with the same polynomial fields",
        "Hypothesis-generated scalar/vector/matrix expressions over arithmetic, powers, math/Bessel functions, conditionals, "
        "index notation, list/component tensors, compound algebra, variables, x and spatial derivatives up to order 2; every "
        "component of e(x, mapping) is compared with the interpreter's value where each coefficient is the same polynomial in "
        "x that the mapping's callable implements (value and exact partial derivatives by plain polynomial arithmetic).",
        "Trusts the interpreter; flat cells; node types without an evaluate method are counted, not reported.",
        "4/C24",
    ),
})

CHECKS.update({
    "C16": (
        "generated forms mixing bilinear/linear/argument-free terms; oracle = numerical split by arity obtained by zeroing/replacing the arguments' polynomial coefficients in the interpreter",
        "Hypothesis-generated forms a(u,v) + L(v) + M (terms of each arity, linear parts hidden under operators via u -> u + g, "
        "1-3 integrals with subdomain ids and metadata, real and complex data): lhs, rhs, system, functional, action (with "
        "and without given coefficient), adjoint and energy_norm are each compared per (integral type, subdomain, "
        "metadata) with the ground truth a(U,V) = F(U,V)-F(0,V)-F(U,0)+F(0,0), L(V) = F(0,V)-F(0,0), M = F(0,0), "
        "a(f,V), a(f,f), conj(a(v,u)); rhs must not depend on the trial function; adjoint must swap spaces and numbers.",
        "Trusts the interpreter; arguments inside conditionals are not generated (lhs/rhs reject them with a ValueError).",
        "4/C16",
    ),
})

CHECKS.update({
    "C22": (
        "generated linear/bilinear forms on mixed elements and mixed function spaces; oracle = interpreter value of F with all but the (i, j) sub-functions' polynomial coefficients zeroed vs value of block (i, j), and sum of blocks vs F",
        "Hypothesis-generated multilinear forms whose arguments are on mixed elements (2-3 scalar/vector/Piola sub-elements, "
        "flat and immersed cells) or carry MixedFunctionSpace parts: every block returned by extract_blocks (full, row and "
        "single (i, j); replace_argument True and False) must equal the form with all other sub-functions set to zero and the "
        "blocks must sum to the form, per (integral type, subdomain, metadata).",
        "Trusts the interpreter; new sub-space arguments are tied to the parent argument's rows by the harness.",
        "4/C22",
    ),
})

CHECKS.update({
    "C23": (
        "typed generation (real-by-construction vs possibly-complex comparison operands); oracle = numerical imaginary part of every comparison operand under random complex data, value before/after, must-accept / must-raise classes",
        "Hypothesis-generated integrands with comparison sites whose operands come from a typed 'real by construction' grammar "
        "or from the unrestricted complex grammar (coefficients, complex literals, sqrt, fractional powers, ln/acos/asin of "
        "possibly negative reals): whenever do_comparison_check accepts, every comparison/min/max operand must be "
        "numerically real for random complex data and the value must be unchanged; real-by-construction programs must be "
        "accepted; the check must terminate. Real mode: remove_complex_nodes on lowered expressions keeps the value for real "
        "data, leaves no conj/real node, and must raise on imag nodes and complex literals.",
        "Trusts the interpreter's complex arithmetic; a case that does not finish within its watchdog is reported as a "
        "violation for this property only (cases take milliseconds; non-termination was the failure mode found).",
        "4/C23",
    ),
})

CHECKS.update({
    "C18": (
        "generated polynomial integrands over fields of exactly known degree; oracle = least-squares fit of a polynomial of the estimated degree to interpreter samples along random lines (reproduces the samples iff the estimate is not too low)",
        "Hypothesis-generated polynomial integrands (algebra, integer powers, indexing, tensor algebra, derivatives, x, "
        "constants) over coefficients/arguments on Lagrange/DG/Piola/symmetric elements and a mixed element with "
        "sub-elements of different degree and shape (fixed components accessed), flat and immersed affine cells; the "
        "estimate of estimate_total_polynomial_degree (raw and preprocessed integrand) and the degree attached by "
        "compute_form_data must admit an exact polynomial fit of that degree to the integrand sampled along two random "
        "lines through the reference cell.",
        "Trusts the interpreter; degree along a generic line equals the total degree; residual threshold 1e-7 relative.",
        "4/C18",
    ),
})

CHECKS.update({
    "C19": (
        "generated DAGs with controlled sharing x random handler tables; oracle = naive recursive reference implementations (own structural key, own MRO dispatch)",
        "Hypothesis-generated expression DAGs (shared objects, equal copies, deep chains, wide tensors) and random handler "
        "tables instantiated as fresh MultiFunction, Transformer and DAGTraverser classes (post-order and cut-off handlers, "
        "with and without catch-all, several objects per case, all classes sharing one qualified name): unique/plain "
        "pre/post traversals, cut-off traversal and terminal traversal against the reference node sets and orders; "
        "map_expr_dag/map_expr_dags (compress on/off, shared caches), direct dispatch, Transformer.visit with variable "
        "rules and DAGTraverser results against recursive tree application.",
        "Trusts the harness' structural key and reference recursion.",
        "4/C19",
    ),
})

CHECKS.update({
    "C20": (
        "generated histories of register-type / use-algorithm / apply-algorithm operations; oracle = differential against the same history with all registrations first (fork-isolated for one history in six)",
        "Hypothesis-generated histories over registering new Operator/Terminal types through @ufl_type, using and applying "
        "generated MultiFunction/Transformer/DAGTraverser classes and nine shipped algorithms with catch-all rules: every "
        "observation (result or exception class) must equal that of the registrations-first permutation, and no application "
        "to a registered type may fail with IndexError/KeyError. One history in six runs in forked children of the pristine "
        "worker (shipped classes first used inside the history); the others run in-process with fresh classes and unique "
        "type names.",
        "fork() isolates the registry; observation strings are compared up to Index numbering.",
        "4/C20",
    ),
})

CHECKS.update({
    "C29": (
        "generated pools of operands (copies, one-edit variants, shared sub-objects, arguments differing in part); oracle = preorder axioms of cmp_expr on all pairs/triples, permutation invariance of sorted_expr, structural equality of swapped sums/products/inner products",
        "Hypothesis-generated pools of 3-5 operands of one type from the grammar, with rebuilt copies, single-edit variants, "
        "members sharing sub-expression objects, arguments that differ only in their part and coefficients that differ only "
        "in their count: cmp_expr must be reflexive, antisymmetric and transitive on all pairs/triples and agree with ==; "
        "sorted_expr must be permutation invariant up to ties; whenever cmp(a,b) != 0, a+b == b+a, a*b == b*a and "
        "inner(b,a) == conj(inner(a,b)) structurally.",
        "Pairs that tie without being equal (index/label numbers) are outside the statement and only counted.",
        "4/C29",
    ),
})

CHECKS.update({
    "C13": (
        "generated pools with near-duplicates and generated sequences of comparisons / container operations; oracle = equivalence axioms, implications of == (hash, repr, own structural key, signature), snapshot invariants after every operation, pickle and eval(repr) round trips",
        "Hypothesis-generated pools of expressions and forms containing rebuilt copies, one-edit variants and terminal twins "
        "that differ in one datum (count, shape, function space, its label, number, part, literal type or last digits "
        "under a reduced print precision, index objects, variable label), exercised by "
        "generated sequences of ==, !=, set/dict membership, sorted_expr, hash, str, pickle and eval(repr): == must be an "
        "equivalence that implies equal hash, repr, structure, signature and pairwise equal terminals; no operation may change repr, hash or "
        "structure of any member; round trips must return equal objects.",
        "Own structural key defines 'unchanged'; BaseFormOperators not generated.",
        "4/C13",
    ),
})

CHECKS.update({
    "C11": (
        "generated (form, one-edit variant) pairs; oracle = signatures must differ whenever the pair is provably different (edit in data a compiler reads verbatim, or integrand values differ numerically under canonical terminal numbering), and must agree for the same recipe rebuilt with shifted counters",
        "Hypothesis-generated forms with subdomain ids and rich metadata (floats, nested containers, numpy arrays up to 4000 "
        "entries) and one edit per pair (literal, fixed index, operator, operand order, element family/degree/mapping, cell, "
        "integral type, subdomain id, metadata value incl. single array entries and last digits, mesh of a field or "
        "integral, two coefficients merged into one -- fields are instances of ufl's classes or of user subclasses --, "
        "derivative multi-index / function space of an ExternalOperator factor): signatures must differ for "
        "every provably different pair; the same recipe rebuilt on fresh objects after shifting all counters, and the "
        "variant built from the objects of the original form, must keep their signatures.",
        "Integrand edits count only when the interpreter finds different values with the k-th terminals of both forms identified.",
        "4/C11",
    ),
})

CHECKS.update({
    "C12": (
        "generated forms built under generated histories of the global counters and in worker processes with different PYTHONHASHSEED; oracle = all signatures of one recipe are identical",
        "Hypothesis-generated forms (up to three meshes, twins of like-typed terminals in commutative positions, variables, "
        "index contractions, generated terms) are each built under four histories that advance the Index / Coefficient / "
        "Constant / Label / Mesh-id counters to both sides of 9|10, 99|100, 999|1000, and in three worker processes started "
        "with different hash seeds: every signature must be the same.",
        "Advancing a counter directly stands for creating that many objects; creation order is identical in every build.",
        "4/C12",
    ),
})

CHECKS.update({
    "C15": (
        "generated forms with mixed subdomain ids and distinct-but-similar metadata; oracle = dict model (mesh, type, subdomain, metadata class) -> sum of integrands, evaluated by the interpreter, vs the grouped form",
        "Hypothesis-generated forms of 1-8 integrals (everywhere / int / tuple ids, dx and ds, one or two meshes, 0-2 unapplied "
        "shape derivatives per integral, metadata "
        "pools with equal, different and nearly equal values incl. long numpy arrays, repeated integrands) through "
        "group_form_integrals (both append options) and build_integral_data: per (mesh, type, subdomain, metadata class) the "
        "grouped integrands must sum to the applicable original integrands; output metadata must equal a source's metadata; "
        "ids in output tuples must be unique; integral data must list each grouped integral exactly once under its key.",
        "Metadata classes by exact comparison; stacks of unapplied coordinate derivatives are compared as multisets.",
        "4/C15",
    ),
})

CHECKS.update({
    "C27": (
        "generated pools of forms/expressions sharing measures and metadata dicts x generated sequences of ~45 public algorithms and operators; oracle = snapshot invariants (repr, hash, own structural key, recomputed signature/arguments/coefficients, deep copies of metadata) after every step",
        "Hypothesis-generated pools (forms whose integrals share Measure objects and user-owned metadata dicts, some already "
        "carrying degree estimates; expressions; affine and non-affine cells) and step sequences over compute_form_data with "
        "random options, every apply_* pass, grouping, derivative/action/adjoint/lhs/rhs/replace/extract_blocks, signature, "
        "comparisons, hashing, form algebra and expression constructors; results are pooled so that later steps act on objects "
        "sharing structure with earlier inputs; after each step every pool member and every user dict must equal its snapshot.",
        "Own structural key and deep copies define 'unchanged'; signature/arguments recomputed from a re-assembled Form.",
        "4/C27",
    ),
})

CHECKS.update({
    "C28": (
        "generated typed compositions of base forms; oracle = finite-dimensional model (numpy tensors; forms assembled with a fixed linear functional of their integrands evaluated by the interpreter on basis fields)",
        "Hypothesis-generated well-typed compositions of Matrix, Cofunction, bilinear/linear/argument-free Forms, "
        "ZeroBaseForm, weighted sums (operators and explicit FormSum, nested, repeated, cancelling), Action with data "
        "coefficients on either side, Adjoint and the action()/adjoint() functions: the tensor obtained by walking the "
        "object UFL returns must equal the tensor of the composition, arguments() must report the map's slots in order "
        "with numbers 0..n-1, and coefficients() must contain every coefficient the tensor depends on; in a third of the "
        "cases expand_derivatives(derivative(composition, w[, dw])) must denote the exact derivative of the tensor "
        "(a polynomial in the differentiation variable, recovered from 7 samples).",
        "Real data; three spaces of dimension 2, 3, 2; compositions whose derivative ufl does not support (it raises) are counted.",
        "4/C28",
    ),
})

NOT_YET = {}


def main():
    props = [json.loads(l) for l in open(os.path.join(HERE, "properties.jsonl"))]
    checks = []
    na = []
    for p in props:
        pid = p["id"]
        if pid in CHECKS:
            tech, text, note, ref = CHECKS[pid]
            checks.append(
                {
                    "property_id": pid,
                    "quick_cmd": f"./check {pid} --tier quick",
                    "thorough_cmd": f"./check {pid} --tier thorough",
                    "evidence_file": f"evidence/{pid}.json",
                    "replay_cmd_template": f"./check {pid} --replay {{path}}",
                    "engine": "vf",
                    "level_claimed": {"category": "exploration", "text": text, "design_ref": "DESIGN.md section " + ref},
                    "level_note": note,
                    "technique": "property-based testing: " + tech,
                }
            )
        else:
            na.append({"property_id": pid, "reason": NOT_YET.get(pid, "check not built yet in this revision (planned, see DESIGN.md section 4)")})
    m = {
        "version": 1,
        "setup_cmd": "./setup.sh",
        "hooks": {
            "guard": "UFL_VERIF",
            "enable": "no source hooks are needed: ufl is pure Python and every observation point is public API; "
            "checks import ufl from /repo's working tree (PYTHONPATH=/repo) with UFL_VERIF=1 set",
            "baseline_off_cmd": "cd /repo && /venv/bin/python -m pytest -q -p no:cacheprovider test/",
            "source_commits": [],
            "add_only": True,
        },
        "engines": [
            {
                "name": "vf",
                "path": "vf/",
                "serves_properties": sorted(CHECKS),
                "kind_free_text": "Hypothesis-driven generated-input search (16 shards) against reference interpreters / "
                "models written in the harness; exhaustive enumeration where the domain is finite",
            }
        ],
        "checks": checks,
        "not_applicable": na,
        "notes": "See DESIGN.md. known_findings.json lists repaired ('fixed') and unrepaired ('known') genuine defects.",
    }
    with open(os.path.join(HERE, "MANIFEST.json"), "w") as f:
        json.dump(m, f, indent=1)
        f.write("\n")
    print("checks:", len(checks), "not_applicable:", len(na))


if __name__ == "__main__":
    main()

#!/bin/bash
# usage: tools/revert_fix_replay.sh <fix commit> <PID> <name>
# Reverts one "fix:" commit in a scratch worktree, runs the check there and saves the violations as replays/<PID>/<name>-<kind>.json
C="$1"; PID="$2"; NAME="$3"
WT=/tmp/revert-$PID-$NAME
git -C /repo worktree remove --force "$WT" 2>/dev/null
git -C /repo worktree add -q --detach "$WT" HEAD || exit 2
( cd "$WT" && git revert --no-commit "$C" >/dev/null 2>&1 ) || { echo "revert of $C does not apply"; git -C /repo worktree remove --force "$WT"; exit 2; }
cd /verif
before=$(ls out/violations 2>/dev/null | sort)
UFL_REPO="$WT" ./check "$PID" --tier quick --no-evidence > /tmp/revert-$PID-$NAME.log 2>&1
rc=$?
git -C /repo worktree remove --force "$WT"
mkdir -p replays/$PID
n=0
for p in $(grep '^VIOLATION' /tmp/revert-$PID-$NAME.log | sed 's/.*replay=//'); do
  kind=$(/venv/bin/python -c "import json,re;print(re.sub(r'[^A-Za-z0-9]+','-',json.load(open('$p'))['kind'])[:40])")
  cp "$p" "replays/$PID/$NAME-$kind.json"; n=$((n+1))
done
echo "$PID $NAME: exit=$rc, $n replay(s) saved"; grep '^violation' /tmp/revert-$PID-$NAME.log | cut -c1-200

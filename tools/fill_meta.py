#!/venv/bin/python
"""Complete seeded/<id>/meta.json (title / needs_to_manifest / what_was_run) from notes.md."""
import json, os, re, sys
ROOT = os.path.dirname(os.path.dirname(os.path.abspath(__file__)))
for mid in sorted(os.listdir(os.path.join(ROOT, "seeded"))):
    d = os.path.join(ROOT, "seeded", mid)
    mp = os.path.join(d, "meta.json")
    if not os.path.isfile(mp):
        continue
    m = json.load(open(mp))
    if m.get("needs_to_manifest") and m.get("title"):
        continue
    notes = open(os.path.join(d, "notes.md")).read() if os.path.exists(os.path.join(d, "notes.md")) else ""
    lines = [l for l in notes.splitlines() if l.strip()]
    m.setdefault("id", mid)
    m["title"] = m.get("title") or (lines[0].lstrip("# ").strip() if lines else mid)
    needs = ""
    for para in re.split(r"\n\s*\n|\n(?=[-*] )", notes):
        if re.search(r"manifest|needed|needs|requires|only when", para, re.I):
            needs = " ".join(para.split()).lstrip("-* ")
            break
    m["needs_to_manifest"] = m.get("needs_to_manifest") or needs[:900]
    m.setdefault("what_was_run", "tools/confirm_seed.sh in a scratch worktree of /repo HEAD: demo.py exit 0 without the patch, non-zero with it; full test suite (977 passed) with the patch")
    m.setdefault("files", ["patch.diff", "demo.py", "notes.md"])
    json.dump(m, open(mp, "w"), indent=1)
    print("filled", mid)
